#!/bin/bash
# usage: tools/seeded.sh <name> <worktree with change applied> <property it breaks> [other properties to run...]
# 1. confirms the seeded change: unit tests pass with it, demo fails with it and passes without it
# 2. stores patch.diff, demo.cpp, meta.txt under /verif/seeded/<name>/
# 3. runs the quick checks of the given properties with VERIF_REPO=<worktree> and records which ones report a VIOLATION
name=$1; wt=$2; shift 2; props="$@"
out=/verif/seeded/$name; mkdir -p $out
cd $wt || exit 1
git diff -- src include > $out/patch.diff
[ -s $out/patch.diff ] || { echo "empty patch"; exit 1; }
cp demo.cpp $out/demo.cpp 2>/dev/null; cp meta.txt $out/meta.txt 2>/dev/null
cmake --build _build >/dev/null 2>&1 || { echo "build failed with change"; exit 1; }
tests_with=$(cd _build && ./runUnitTests 2>&1 | tail -1)
g++ -std=gnu++11 -I$wt/include demo.cpp -L$wt/_build -lezc3d -Wl,-rpath,$wt/_build -o demo_bin 2>/dev/null || { echo "demo build failed"; }
(cd $wt && ./demo_bin >/dev/null 2>&1); demo_with=$?
git apply -R $out/patch.diff   # (git stash is shared between worktrees: never use it here)
cmake --build _build >/dev/null 2>&1
g++ -std=gnu++11 -I$wt/include demo.cpp -L$wt/_build -lezc3d -Wl,-rpath,$wt/_build -o demo_bin 2>/dev/null   # (headers may be part of the change)
(cd $wt && ./demo_bin >/dev/null 2>&1); demo_without=$?
tests_without=$(cd _build && ./runUnitTests 2>&1 | tail -1)
git apply $out/patch.diff
cmake --build _build >/dev/null 2>&1
echo "confirm: tests_with='$tests_with' demo_with=$demo_with demo_without=$demo_without"
res=""
cd /verif
for p in $props; do
  o=$(VERIF_REPO=$wt ./check run $p --tier quick 2>&1); rc=$?
  res="$res $p:rc=$rc"
  echo "  $p rc=$rc $(echo "$o" | grep -E '^(VIOLATION|OK|BROKEN)' | head -1 | cut -c1-160)"
  echo "$o" | grep -A1 -E '^VIOLATION' | head -2 | tail -1 | cut -c1-300
done
python3 - "$name" "$tests_with" "$demo_with" "$demo_without" "$res" <<'PY'
import json,sys,os
name,tw,dw,dwo,res=sys.argv[1:6]
out='/verif/seeded/'+name
meta={'name':name,'breaks_property':name.split('-')[0],'tests_with_change':tw,'demo_exit_with_change':int(dw),'demo_exit_without_change':int(dwo),
      'confirmed': ('PASSED' in tw) and int(dw)!=0 and int(dwo)==0,
      'needs_to_manifest': open(out+'/meta.txt').read() if os.path.exists(out+'/meta.txt') else '',
      'checks_run': {x.split(':')[0]: ('VIOLATION' if x.endswith('rc=1') else ('clean' if x.endswith('rc=0') else x.split(':')[1])) for x in res.split()},
      'how': 'tools/seeded.sh: unit tests and demo with/without the change in the scratch worktree, then ./check run <ID> --tier quick with VERIF_REPO=<worktree>'}
json.dump(meta,open(out+'/meta.json','w'),indent=1)
print(json.dumps(meta['checks_run']), 'confirmed=',meta['confirmed'])
PY
