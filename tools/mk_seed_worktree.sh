#!/bin/bash
# usage: mk_seed_worktree.sh <dir>   creates a scratch worktree of /repo HEAD with gtest and a configured test build
wt=$1
git -C /repo worktree remove --force $wt >/dev/null 2>&1
git -C /repo worktree add -q --detach $wt HEAD || exit 1
mkdir -p $wt/external/gtest && cp -r /repo/external/gtest/. $wt/external/gtest/
cmake -G Ninja -S $wt -B $wt/_build -DBUILD_TESTS=ON -DBUILD_EXAMPLE=OFF -DCMAKE_BUILD_TYPE=RelWithDebInfo >/dev/null 2>&1 || exit 2
cmake --build $wt/_build >/dev/null 2>&1 || exit 3
(cd $wt/_build && ./runUnitTests 2>&1 | tail -1)
