#!/usr/bin/env python3
"""Builds seeded/RESULTS.md from seeded/*/meta.json and seeded/reverted_fixes.txt."""
import json, glob, os
rows = []
for m in sorted(glob.glob('/verif/seeded/*/meta.json')):
    d = json.load(open(m))
    first = (d.get('needs_to_manifest') or '').strip().splitlines()
    what = ' '.join(first[:3])[:260]
    runs = d.get('checks_run', {})
    caught = [k for k, v in runs.items() if v == 'VIOLATION']
    missed = [k for k, v in runs.items() if v != 'VIOLATION']
    rows.append((d['name'], d.get('breaks_property'), 'yes' if d.get('confirmed') else 'NO', ', '.join(caught) or '-', ', '.join(missed) or '-', d.get('history', ''), what))
out = ['# Independently seeded changes and the checks that catch them', '',
       'Each change was produced by a fresh sub-agent that saw only the property text and a scratch worktree; `confirmed` = the 18 existing tests pass',
       'with the change, the demonstration fails with it and passes without it (tools/seeded.sh). `caught by` / `not caught by` list the quick checks',
       'that were run against the change (VERIF_REPO = worktree with the change applied).', '',
       '| change | targets | confirmed | caught by | run but clean | history | what it is |', '|---|---|---|---|---|---|---|']
for r in rows:
    out.append('| %s | %s | %s | %s | %s | %s | %s |' % tuple(str(x).replace('|', '/') for x in r))
if os.path.exists('/verif/seeded/reverted_fixes.txt'):
    out += ['', '## Reverted fixes', '', '```', open('/verif/seeded/reverted_fixes.txt').read().rstrip(), '```']
open('/verif/seeded/RESULTS.md', 'w').write('\n'.join(out) + '\n')
print('\n'.join(out[:40]))
