#!/bin/bash
# Sensitivity of the checks to the defects that were repaired: for every fix: commit of /repo, revert it in a scratch
# worktree (outside /repo and /verif), run the quick check of the property named in known_findings.json with
# VERIF_REPO pointing at the worktree, and expect exit status 1 (VIOLATION). Worktrees are removed afterwards.
# usage: tools/revert_sensitivity.sh [commit...]
cd /verif
list=${@:-$(python3 -c "
import json,re
for s in json.load(open('/verif/known_findings.json'))['fixed']:
    m=re.match(r'fixed: property=(C\d+) ([0-9a-f]{7})',s); print(m.group(2)+':'+m.group(1))")}
for item in $list; do
  c=${item%%:*}; p=${item##*:}
  wt=/tmp/ezc3d-revert-$c
  git -C /repo worktree remove --force $wt >/dev/null 2>&1
  git -C /repo worktree add -q --detach $wt HEAD || { echo "$c $p worktree-failed"; continue; }
  if ! git -C $wt revert -n $c >/dev/null 2>&1; then echo "$c $p revert-conflict"; git -C /repo worktree remove --force $wt; continue; fi
  out=$(VERIF_REPO=$wt ./check run $p --tier quick 2>&1); rc=$?
  echo "$c $p rc=$rc $(echo "$out" | grep -E '^(VIOLATION|OK|BROKEN)' | head -1 | cut -c1-150)"
  # SAVE=1: keep the (shrunk) failing case as a regression input of the property's replay tier (corpus/<ID>/fixed-<commit>.case),
  # provided it passes on the unchanged tree
  if [ -n "$SAVE" ] && [ $rc = 1 ]; then
    rp=$(echo "$out" | grep -E '^VIOLATION' | head -1 | sed 's/.*replay=//')
    if [ -f "$rp" ] && [ ! -f corpus/$p/fixed-$c.case ] && ./check replay $p "$rp" >/dev/null 2>&1; then mkdir -p corpus/$p; grep -v '^#' "$rp" > corpus/$p/fixed-$c.case; echo "   saved corpus/$p/fixed-$c.case"; fi
  fi
  git -C /repo worktree remove --force $wt
done
git -C /repo worktree prune
