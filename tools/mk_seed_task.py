#!/usr/bin/env python3
"""usage: mk_seed_task.py <property id> <worktree> [extra hint]   writes <worktree>/TASK.md (the only thing a seeding sub-agent is given):
the property text from properties.jsonl, the rules, and one line per change already kept under seeded/<id>-*/ ."""
import sys, json, glob, os
pid, wt = sys.argv[1], sys.argv[2]
hint = sys.argv[3] if len(sys.argv) > 3 else ''
prop = [json.loads(l) for l in open('/verif/properties.jsonl') if json.loads(l)['id'] == pid][0]
q = prop.get('quantified_over') or prop.get('quantifier') or {}
tried = []
for m in sorted(glob.glob('/verif/seeded/%s-*/meta.txt' % pid)):
    t = ' '.join(open(m).read().split())
    tried.append(' - ' + t[:330])
T = '''You are working in a scratch git worktree of the open-source C++ library ezc3d (a reader, modifier and writer of the C3D biomechanics file format) at {wt}. Work ONLY inside {wt}; do not read or touch /verif, /repo or any other directory.

Build the library and tests with:  cmake --build {wt}/_build
Run the existing test suite with:  cd {wt}/_build && ./runUnitTests     (18 gtest tests; they all pass now and must all still pass after your change)
Library sources: {wt}/src/*.cpp, headers {wt}/include/*.h, tests {wt}/test/test_ezc3d.cpp, docs {wt}/README.md. The shared library is {wt}/_build/libezc3d.so.

Here is a semantic property the library is supposed to satisfy:

  Title: {title}
  Statement: {stmt}
  Quantified over: {quant}

YOUR TASK: introduce ONE realistic change to the library sources (src/*.cpp and/or include/*.h) -- the kind of bug a developer could plausibly introduce while refactoring, optimising or 'simplifying' the code -- that BREAKS this property, while the code still compiles and the existing test suite still passes unchanged. The breakage must need something specific in order to manifest: a multi-step sequence of API calls, an unusual input or value, a particular size/offset/alignment, a fault at a particular point, or two cooperating code sites that each look fine alone. It must NOT be something that ordinary simple use (like the existing tests) would expose at once. Do not edit the tests. Keep the change small (a few lines).

DELIVERABLES (all inside {wt}):
 1. {wt}/mutant.patch  = output of `git -C {wt} diff -- src include` (only the library change).
 2. {wt}/demo.cpp = a small standalone C++ program (with main) using the public API that exits with status 0 on the ORIGINAL code and with a non-zero status (and a short message on stderr) when your change is applied. Build it with:  g++ -std=gnu++11 -pthread -I{wt}/include {wt}/demo.cpp -L{wt}/_build -lezc3d -Wl,-rpath,{wt}/_build -o {wt}/demo   . If the demonstration needs input files it must create them itself (the C3D test files are in {wt}/test/c3dFiles/).
 3. {wt}/meta.txt = 5-10 lines: what was changed, which part of the property it breaks, what exactly is needed for the breakage to manifest, and the commands you ran.
Verify yourself: (a) with the change applied: library builds, ./runUnitTests passes all 18 tests, demo exits non-zero; (b) with the change reverted: demo exits 0. Leave the worktree WITH the change applied (and mutant.patch written) when you finish. Report briefly what you did.

IMPORTANT: never use 'git stash' (the stash is shared between several worktrees of this repository and other people are working in them); to check the original behaviour, save your diff to mutant.patch and use 'git apply -R mutant.patch' / 'git apply mutant.patch'.
{hint}
ALREADY TRIED by others (do NOT produce these changes or close variants of them, and do not simply revert a recent commit of the repository; pick a different function / mechanism / clause of the property). Good candidates need an unusual but legitimate situation to show: four or more calls in a specific order, a file with a vendor layout that is loaded and then edited, a second call of the same function with different arguments, a value at the edge of a range, an object that went through save and reload before the edit:
{tried}
'''
open(os.path.join(wt, 'TASK.md'), 'w').write(T.format(wt=wt, title=prop.get('title'), stmt=prop.get('statement'), quant=q.get('text') if isinstance(q, dict) else q,
                                                    hint=('\nSCOPE NOTE: ' + hint + '\n') if hint else '', tried='\n'.join(tried) or ' (none yet)'))
print('wrote', os.path.join(wt, 'TASK.md'), len(tried), 'already tried')
