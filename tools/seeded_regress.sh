#!/bin/bash
# usage: tools/seeded_regress.sh <clean scratch worktree of /repo> [name-glob]
# Re-runs, for every kept seeded change, the quick checks that caught it (meta.json: checks_run == VIOLATION) against the CURRENT /verif:
# applies seeded/<name>/patch.diff in the worktree, runs ./check with VERIF_REPO=<worktree>, reverts. Writes seeded/REGRESSION.txt.
wt=$1; glob=${2:-*}
cd "$(dirname "$(readlink -f "$0")")/.."
out=seeded/REGRESSION.txt.new; : > $out
echo "# seeded changes re-run against /verif $(git rev-parse --short HEAD 2>/dev/null)$(git diff --quiet 2>/dev/null || echo +dirty), /repo $(git -C /repo rev-parse --short HEAD)" >> $out
for d in seeded/$glob/; do
  n=$(basename $d); [ -f $d/patch.diff ] || continue
  props=$(python3 -c "
import json,sys
m=json.load(open('$d/meta.json'))
c=[k for k,v in m.get('checks_run',{}).items() if v=='VIOLATION']
print(' '.join(c))")
  [ -z "$props" ] && { echo "$n (never caught; see meta.json history)" >> $out; continue; }
  git -C $wt checkout -q -- . ; 
  if ! git -C $wt apply $PWD/$d/patch.diff 2>/dev/null; then echo "$n patch-does-not-apply" >> $out; continue; fi
  line="$n"
  for p in $props; do
    o=$(VERIF_REPO=$wt ./check run $p --tier quick 2>&1); rc=$?
    line="$line $p:$([ $rc = 1 ] && echo VIOLATION || echo rc=$rc)"
  done
  echo "$line" >> $out
  git -C $wt checkout -q -- .
done
mv $out seeded/REGRESSION.txt
