"""Main driver: runs property checks, shrinks/replays failures, writes evidence, handles known findings."""
import hashlib, json, os, shutil, signal, subprocess, sys, time, glob
from concurrent.futures import ThreadPoolExecutor
import build as B

VERIF = B.VERIF
WORK = os.path.join(VERIF, '.work')
EVID = os.path.join(VERIF, 'evidence')
REPLAYS = os.path.join(VERIF, 'replays')
KF_FILE = os.path.join(VERIF, 'known_findings.json')

ASAN_OPTS = 'detect_leaks=0:alloc_dealloc_mismatch=1:quarantine_size_mb=32:max_allocation_size_mb=1024:hard_rss_limit_mb=6144:allocator_may_return_null=0:exitcode=99:handle_abort=1'

def seed():
    try:
        s = int(os.environ.get('VERIF_SEED', '1'))
    except ValueError:
        s = 1
    return s if s != 0 else 1

def base_env(extra=None):
    e = dict(os.environ)
    e['ASAN_OPTIONS'] = ASAN_OPTS
    e['UBSAN_OPTIONS'] = 'print_stacktrace=1'
    e['VERIF_WORK'] = WORK
    e.setdefault('VERIF_CASE_CPU_S', '180')
    if extra:
        e.update(extra)
    return e

# ---- known findings -----------------------------------------------------------------------------
def load_findings():
    if not os.path.exists(KF_FILE):
        return []
    with open(KF_FILE) as f:
        return json.load(f).get('findings', [])

def open_findings_env():
    """VERIF_OPEN_FINDINGS value: ids of open findings; 'ID!C06!C08' = the input class of ID is NOT excluded for C06 and C08 (their oracles are unaffected by it)"""
    return ' '.join(k['id'] + ''.join('!' + p for p in k.get('not_excluded_for', [])) for k in open_findings())

def open_findings(prop=None):
    return [k for k in load_findings() if k.get('status') == 'open' and (prop is None or prop in k.get('properties', [k.get('property')]))]

# ---- evidence -------------------------------------------------------------------------------------
def write_evidence(prop, tier, level, coverage, wall, violations=0, assumptions=None):
    os.makedirs(EVID, exist_ok=True)
    ev = {
        'property_id': prop, 'tier': tier, 'seed': seed(), 'level': level,
        'coverage': coverage, 'wall_s': round(wall, 2), 'violations': violations,
        'assumptions': assumptions or [],
    }
    tmp = os.path.join(EVID, prop + '.json.tmp')
    with open(tmp, 'w') as f:
        json.dump(ev, f, indent=1, sort_keys=True)
    os.replace(tmp, os.path.join(EVID, prop + '.json'))

# ---- process helpers ------------------------------------------------------------------------------
# exit 96 = the harness's own per-case CPU budget ran out, -999 = the driver's wall-clock limit on one replay: a budget that ran out is
# "inconclusive", never a violation (exit 97, C16's bound on ONE load of a small file, is the property itself and stays a failure)
BUDGET_RCS = (96, -999)

def is_crash(rc, out):
    if rc in (0, 1, 2, 3, 4) or rc in BUDGET_RCS:
        return False
    return True

def run_replay(binp, case_path, prop=None, env=None, timeout=300):
    cmd = [binp, case_path] + ([prop] if prop else [])
    try:
        r = subprocess.run(cmd, stdout=subprocess.PIPE, stderr=subprocess.STDOUT, text=True, errors='replace', env=base_env(env), timeout=timeout)
        return r.returncode, r.stdout
    except subprocess.TimeoutExpired as e:
        return -999, 'TIMEOUT'

def case_lines(text):
    lines = [l for l in text.splitlines() if l.strip() and not l.startswith('#')]
    head = [l for l in lines if l.startswith('property:')]
    ops = [l for l in lines if not l.startswith('property:')]
    return head, ops

def ddmin(binp, prop, text, still_fails, budget_s=120):
    """Delta-debugging over operation lines, then integer reduction. still_fails(text)->bool."""
    head, ops = case_lines(text)
    t0 = time.time()
    tmp = os.path.join(WORK, 'ddmin-%s-%d.case' % (prop, os.getpid()))
    def test(o):
        with open(tmp, 'w') as f:
            f.write('\n'.join(head + o) + '\n')
        return still_fails(tmp)
    n = 2
    while len(ops) >= 2 and time.time() - t0 < budget_s:
        chunk = max(1, len(ops) // n)
        reduced = False
        for i in range(0, len(ops), chunk):
            cand = ops[:i] + ops[i + chunk:]
            if cand and test(cand):
                ops = cand; n = max(n - 1, 2); reduced = True
                break
        if not reduced:
            if chunk == 1:
                break
            n = min(n * 2, len(ops))
    # integer reduction: try 0 and halving for each argument
    changed = True
    while changed and time.time() - t0 < budget_s:
        changed = False
        for li in range(len(ops)):
            parts = ops[li].split()
            for ai in range(1, len(parts)):
                try:
                    v = int(parts[ai])
                except ValueError:
                    continue
                for nv in (0, v // 2):
                    if nv == v:
                        continue
                    p2 = parts[:]; p2[ai] = str(nv)
                    cand = ops[:li] + [' '.join(p2)] + ops[li + 1:]
                    if test(cand):
                        ops = cand; parts = p2; changed = True
                        break
            if time.time() - t0 > budget_s:
                break
    try:
        os.remove(tmp)
    except OSError:
        pass
    return '\n'.join(head + ops) + '\n'

def save_replay(prop, text, note=''):
    os.makedirs(REPLAYS, exist_ok=True)
    dg = hashlib.sha1(text.encode()).hexdigest()[:12]
    p = os.path.join(REPLAYS, '%s-%s.case' % (prop, dg))
    with open(p, 'w') as f:
        f.write(text)
        if note:
            f.write('# ' + note.replace('\n', ' ')[:800] + '\n')
    return p

class Result:
    def __init__(self):
        self.violations = []      # (replay_path, message)
        self.known = {}           # finding id -> count
        self.broken = None
        self.cov = {}

def confirm_and_report(res, prop, replay_bin, text, msg, crash, env=None):
    """Replay 3x; if it reproduces, shrink (crashes only; rapidcheck shrank the others) and record a violation.
    Returns True if recorded as violation, False if it did not reproduce or is a known finding."""
    os.makedirs(WORK, exist_ok=True)
    tmp = os.path.join(WORK, 'confirm-%s-%d.case' % (prop, os.getpid()))
    with open(tmp, 'w') as f:
        f.write(text)
    outs = [run_replay(replay_bin, tmp, prop, env) for _ in range(3)]
    fails = [(rc, o) for rc, o in outs if rc == 1 or is_crash(rc, o)]
    if any(rc in BUDGET_RCS for rc, _ in outs) and len(fails) < 3:
        sys.stderr.write('[%s] a replay ran out of its CPU / wall-clock budget (%s); inconclusive\n' % (prop, [rc for rc, _ in outs]))
        res.cov.setdefault('inconclusive', []).append('budget exhausted while replaying: ' + msg[:200])
        return False
    knowns = [(rc, o) for rc, o in outs if rc == 4]
    if len(knowns) == 3:
        kid = 'unknown'
        for l in knowns[0][1].splitlines():
            if l.startswith('known-finding-class='):
                kid = l.split('=', 1)[1].strip()
        res.known[kid] = res.known.get(kid, 0) + 1
        return False
    if len(fails) < 3:
        sys.stderr.write('[%s] failure did not reproduce 3x under replay (%s); treated as inconclusive\n' % (prop, [rc for rc, _ in outs]))
        res.cov.setdefault('inconclusive', []).append(msg[:300])
        return False
    if crash or is_crash(fails[0][0], fails[0][1]):
        def still(p):
            rc, o = run_replay(replay_bin, p, prop, env)
            return is_crash(rc, o)
        text = ddmin(replay_bin, prop, text, still)
        with open(tmp, 'w') as f:
            f.write(text)
        rc, o = run_replay(replay_bin, tmp, prop, env)
        tail = [l.strip() for l in o.splitlines() if 'ERROR' in l or 'SUMMARY' in l or 'Assertion' in l or 'FAIL' in l or 'terminate' in l or 'CPU-BUDGET' in l]
        msg = ('crash (exit %s): ' % rc + ' | '.join(tail[:3]))[:1000]
    path = save_replay(prop, text, msg)
    res.violations.append((path, msg))
    return True

def run_pbt_shards(prop, bins, n_total, size, shards, tier, extra_env=None, prop_arg=None, timeout=None):
    """Runs the rapidcheck front-end in `shards` processes with derived seeds; large totals are split into rounds of fresh
    processes (bounded memory, more distinct seeds). Returns merged stats + failures."""
    per_round = 6000 * shards
    if n_total > per_round:
        rounds = (n_total + per_round - 1) // per_round
        merged = None
        for rd in range(rounds):
            m = _run_pbt_round(prop, bins, min(per_round, n_total - rd * per_round), size, shards, tier, extra_env, prop_arg, timeout, seed_offset=(rd + 1) * 100)
            merged = m if merged is None else merge_stats(merged, m)
            if merged['fails']:
                break           # a failure ends the campaign: it is reported, the rest would only repeat it
        merged['rounds'] = rd + 1
        return merged
    return _run_pbt_round(prop, bins, n_total, size, shards, tier, extra_env, prop_arg, timeout, seed_offset=0)

def _run_pbt_round(prop, bins, n_total, size, shards, tier, extra_env, prop_arg, timeout, seed_offset):
    os.makedirs(WORK, exist_ok=True)
    per = max(1, n_total // shards)
    if timeout is None:
        timeout = 4 * 3600 if tier == 'thorough' else 1800     # safety net only (a stuck shard is killed and counted, never a violation)
    s0 = seed()
    opens = open_findings_env()
    procs = []
    for i in range(shards):
        st = os.path.join(WORK, 'stats-%s-%d-%d.json' % (prop, os.getpid(), i))
        if os.path.exists(st):
            os.remove(st)
        env = base_env({'VERIF_TIER': tier, 'VERIF_OPEN_FINDINGS': opens})
        if extra_env:
            env.update(extra_env)
        cmd = [bins['pbt'], prop_arg or prop, '--n', str(per), '--size', str(size), '--seed', str(s0 * 1000 + seed_offset * 1000 + i), '--stats', st, '--work', WORK]
        p = subprocess.Popen(cmd, stdout=subprocess.PIPE, stderr=subprocess.STDOUT, text=True, errors='replace', env=env)
        procs.append((p, st, i))
    merged = {'evaluations': 0, 'discards': 0, 'nt': set(), 'tags': {}, 'counters': {}, 'known': {}, 'samples': [], 'fails': [], 'nt_rule': ''}
    for p, st, i in procs:
        try:
            out, _ = p.communicate(timeout=timeout)
        except subprocess.TimeoutExpired:
            p.kill(); out, _ = p.communicate()
            merged.setdefault('timeouts', 0); merged['timeouts'] = merged.get('timeouts', 0) + 1
            continue
        rc = p.returncode
        stats = None
        if os.path.exists(st):
            try:
                with open(st) as f:
                    stats = json.load(f)
            except Exception:
                stats = None
            os.remove(st)
        if stats:
            merged['evaluations'] += stats['evaluations']; merged['discards'] += stats['discards']
            merged['nt'].update(stats['nt_keys'])
            for k, v in stats['tags'].items():
                merged['tags'][k] = merged['tags'].get(k, 0) + v
            for k, v in stats['counters'].items():
                merged['counters'][k] = merged['counters'].get(k, 0) + v
            for k, v in stats['known'].items():
                merged['known'][k] = merged['known'].get(k, 0) + v
            if len(merged['samples']) < 4:
                merged['samples'] += stats['samples'][:2]
            merged['nt_rule'] = stats.get('nt_rule', '')
            if not stats['ok'] and stats.get('fail_case') and os.path.exists(stats['fail_case']):
                with open(stats['fail_case']) as f:
                    merged['fails'].append(dict(text=f.read(), msg=stats['fail_msg'], crash=False))
                os.remove(stats['fail_case'])
        if rc != 0 and stats and not stats['ok'] and not (stats.get('fail_case')):
            merged['fails'].append(dict(text=None, msg='rapidcheck reported a failure the harness did not record: ' + '\n'.join(out.splitlines()[-25:])[-1200:], crash=True))
        if rc in BUDGET_RCS:
            merged.setdefault('budget', []).append('shard %d: %s' % (i, ' '.join(out.splitlines()[-2:])[-200:]))
        elif rc != 0 and not (stats and not stats['ok']):
            # crashed (sanitizer / assertion / signal): pick up the case being executed
            cur = os.path.join(WORK, 'pbt-%s-%d' % (prop_arg or prop, p.pid), 'current.case')
            text = None
            if os.path.exists(cur):
                with open(cur) as f:
                    text = f.read()
            tail = '\n'.join(out.splitlines()[-40:])
            merged['fails'].append(dict(text=text, msg='process exit %s: %s' % (rc, tail[-1500:]), crash=True))
        d = os.path.join(WORK, 'pbt-%s-%d' % (prop_arg or prop, p.pid))
        shutil.rmtree(d, ignore_errors=True)
    return merged

def run_batch_shards(prop, bins, paths, shards, tier, extra_env=None, prop_arg=None):
    """Runs saved / enumerated case files through the replay binary (--batch) in `shards` processes; merged stats like run_pbt_shards."""
    os.makedirs(WORK, exist_ok=True)
    merged = {'evaluations': 0, 'discards': 0, 'nt': set(), 'tags': {}, 'counters': {}, 'known': {}, 'samples': [], 'fails': [], 'nt_rule': ''}
    if not paths:
        return merged
    shards = max(1, min(shards, len(paths)))
    opens = open_findings_env()
    procs = []
    for i in range(shards):
        part = paths[i::shards]
        lst = os.path.join(WORK, 'list-%s-%d-%d.txt' % (prop, os.getpid(), i))
        st = os.path.join(WORK, 'bstats-%s-%d-%d.json' % (prop, os.getpid(), i))
        with open(lst, 'w') as f:
            f.write('\n'.join(part) + '\n')
        if os.path.exists(st):
            os.remove(st)
        env = base_env({'VERIF_TIER': tier, 'VERIF_OPEN_FINDINGS': opens})
        if extra_env:
            env.update(extra_env)
        cmd = [bins['replay'], '--batch', lst, st] + ([prop_arg or prop])
        p = subprocess.Popen(cmd, stdout=subprocess.PIPE, stderr=subprocess.STDOUT, text=True, errors='replace', env=env)
        procs.append((p, st, lst))
    for p, st, lst in procs:
        out, _ = p.communicate()
        rc = p.returncode
        stats = None
        if os.path.exists(st):
            try:
                with open(st) as f:
                    stats = json.load(f)
            except Exception:
                stats = None
            os.remove(st)
        os.remove(lst)
        if stats:
            merged['evaluations'] += stats['evaluations']; merged['discards'] += stats['discards']
            merged['nt'].update(stats['nt_keys'])
            for k, v in stats['tags'].items():
                merged['tags'][k] = merged['tags'].get(k, 0) + v
            for k, v in stats['counters'].items():
                merged['counters'][k] = merged['counters'].get(k, 0) + v
            for k, v in stats['known'].items():
                merged['known'][k] = merged['known'].get(k, 0) + v
            if len(merged['samples']) < 4:
                merged['samples'] += stats['samples'][:2]
            merged['nt_rule'] = stats.get('nt_rule', '')
            if not stats['ok'] and stats.get('fail_case') and os.path.exists(stats['fail_case']):
                with open(stats['fail_case']) as f:
                    merged['fails'].append(dict(text=f.read(), msg=stats['fail_msg'], crash=False))
        if rc in BUDGET_RCS:
            merged.setdefault('budget', []).append('batch: %s' % ' '.join(out.splitlines()[-2:])[-200:])
        elif rc != 0 and not (stats and not stats['ok']):
            cur = os.path.join(WORK, 'batch-%d' % p.pid, 'current.case')
            text = None
            if os.path.exists(cur):
                with open(cur) as f:
                    text = f.read()
            tail = '\n'.join(out.splitlines()[-40:])
            merged['fails'].append(dict(text=text, msg='process exit %s: %s' % (rc, tail[-1500:]), crash=True))
        shutil.rmtree(os.path.join(WORK, 'batch-%d' % p.pid), ignore_errors=True)
    return merged

def merge_stats(a, b):
    a['evaluations'] += b['evaluations']; a['discards'] += b['discards']; a['nt'].update(b['nt'])
    for key in ('tags', 'counters', 'known'):
        for k, v in b[key].items():
            a[key][k] = a[key].get(k, 0) + v
    a['samples'] = (a['samples'] + b['samples'])[:6]
    a['fails'] += b['fails']
    if b.get('budget'):
        a['budget'] = a.get('budget', []) + b['budget']
    if not a.get('nt_rule'):
        a['nt_rule'] = b.get('nt_rule', '')
    return a

def corpus_cases(prop):
    return sorted(glob.glob(os.path.join(VERIF, 'corpus', prop, '*.case')))

def finish(prop, tier, level, res, cov, t0, floor=2, assumptions=None):
    """Prints KNOWN-FINDING / VIOLATION lines, writes evidence and returns the exit status."""
    wall = time.time() - t0
    kf = open_findings(prop)
    cov = dict(cov)
    repro = {}
    for k in kf:
        print('KNOWN-FINDING: property=%s %s [%s]' % (prop, k['what'], k['id']))
        # replay the directed reproduction of the finding (information only; never changes the verdict)
        rp = os.path.join(VERIF, k.get('repro', ''))
        if k.get('repro') and os.path.exists(rp):
            try:
                bins = B.build('asan', ('replay',), quiet=True)
                rc, out = run_replay(bins['replay'], rp, None, {'VERIF_OPEN_FINDINGS': open_findings_env()})
                repro[k['id']] = 'reproduces' if rc == 4 or 'skipped-declared-data-beyond-file' in out else 'directed reproduction exits %s' % rc
            except Exception as e:
                repro[k['id']] = 'not replayed: %s' % str(e)[:100]
    if repro:
        cov['known_finding_reproductions'] = repro
    if res.known:
        cov['known_finding_hits'] = res.known
    if kf:
        cov['open_known_findings'] = [k['id'] for k in kf]
    if res.cov:
        cov.update(res.cov)
    write_evidence(prop, tier, level, cov, wall, violations=len(res.violations), assumptions=assumptions)
    if res.broken:
        print('BROKEN-CHECK property=%s %s' % (prop, res.broken))
        return 2
    if res.violations:
        for path, msg in res.violations:
            print('VIOLATION property=%s replay=%s' % (prop, path))
            print('  detail: %s' % msg[:600])
        return 1
    if cov.get('distinct_nontrivial', 0) < floor:
        print('BROKEN-CHECK property=%s only %d distinct non-trivial cases (floor %d)' % (prop, cov.get('distinct_nontrivial', 0), floor))
        return 2
    print('OK property=%s tier=%s evaluations=%s distinct_nontrivial=%s wall=%.1fs' % (prop, tier, cov.get('evaluations'), cov.get('distinct_nontrivial'), wall))
    return 0

def generic_pbt(prop, tier, n_quick, n_thorough, size_quick=100, size_thorough=100, level='exploration', floor=20, flavour='asan',
                assumptions=None, shards_quick=16, shards_thorough=16, prop_arg=None, extra_cov=None, extra_env=None, extra_cases=None, fuzz=None, post_cov=None):
    t0 = time.time()
    res = Result()
    try:
        bins = B.build(flavour, ('pbt', 'replay'))
    except RuntimeError as e:
        res.broken = 'build failed: ' + str(e)[:2000]
        return finish(prop, tier, level, res, {'evaluations': 0, 'distinct_nontrivial': 0, 'rule': '', 'samples': []}, t0)
    n = n_thorough if tier == 'thorough' else n_quick
    if os.environ.get('VERIF_N_OVERRIDE'):
        n = int(os.environ['VERIF_N_OVERRIDE'])      # for calibrating budgets only
    size = size_thorough if tier == 'thorough' else size_quick
    shards = shards_thorough if tier == 'thorough' else shards_quick
    m = run_pbt_shards(prop, bins, n, size, shards, tier, extra_env=extra_env, prop_arg=prop_arg)
    saved = corpus_cases(prop) + list(extra_cases or [])
    if saved:
        mb = run_batch_shards(prop, bins, saved, shards, tier, extra_env=extra_env, prop_arg=prop_arg)
        merge_stats(m, mb)
        extra_cov = dict(extra_cov or {}); extra_cov['saved_or_enumerated_cases'] = len(saved)
    opens = open_findings_env()
    env = {'VERIF_TIER': tier, 'VERIF_OPEN_FINDINGS': opens}
    if extra_env:
        env.update(extra_env)
    seen = set(); t_confirm = time.time()
    for f in m['fails']:
        if f['text'] is None:
            res.broken = 'harness crashed without a current case: ' + f['msg'][-800:]
            continue
        if f['text'] in seen:
            continue
        seen.add(f['text'])
        # every failure is replayed 3x (and crashes are minimised) before it is reported; on a tree with a shallow defect there can be
        # hundreds of failing cases, so stop once three violations are confirmed or five minutes were spent and one is
        if len(res.violations) >= 3 or (res.violations and time.time() - t_confirm > 300):
            res.cov['further_failing_cases_not_replayed'] = res.cov.get('further_failing_cases_not_replayed', 0) + 1
            continue
        confirm_and_report(res, prop, bins['replay'], f['text'], f['msg'], f['crash'], env)
    for k, v in m['known'].items():
        res.known[k] = res.known.get(k, 0) + v
    for b in m.get('budget', []):
        res.cov.setdefault('inconclusive', []).append('per-case CPU budget exhausted (case abandoned, rest of that shard not run): ' + b)
    res_tags = [k for k in m['tags'] if k.startswith('res:')]
    if res_tags:
        extra_cov = dict(extra_cov or {}); extra_cov['residues_covered'] = len(res_tags)
        extra_cov['residues_missing'] = sorted(set(range(512)) - set(int(k[4:]) for k in res_tags))
        for k in res_tags:
            del m['tags'][k]
    fuzz_cov = {}
    if fuzz and not res.violations:      # (a campaign on a tree that already violates the property would only repeat the finding)
        for spec in fuzz:
            run_fuzz(prop, spec['target'], spec.get('seeds', []), spec['budget'][1 if tier == 'thorough' else 0], spec['jobs'][1 if tier == 'thorough' else 0], tier, spec.get('max_len', 4096), res, fuzz_cov)
    cov = {
        'evaluations': m['evaluations'], 'distinct_nontrivial': len(m['nt']), 'rule': m['nt_rule'],
        'samples': m['samples'][:4], 'case_classes': m['tags'], 'discards': m['discards'], 'counters': m['counters'],
        'shards': shards, 'generator_size': size, 'engine': 'rapidcheck (RC_PARAMS seed=VERIF_SEED*1000+shard) under ' + flavour,
    }
    if extra_cov:
        cov.update(extra_cov)
    cov.update(fuzz_cov)
    if fuzz_cov:
        cov['evaluations'] += sum(v['executions'] for v in fuzz_cov.values())
    if post_cov:
        post_cov(cov)
    return finish(prop, tier, level, res, cov, t0, floor=floor, assumptions=assumptions)

def run_fuzz(prop, target, seeds, budget_s, jobs, tier, max_len, res, cov, props_of_fail=None):
    """Coverage-guided campaign (libFuzzer, clang -fsanitize=fuzzer,address) with the semantic oracle inside the target.
    seeds: list of case texts whose file (f* ops) is dumped as a seed input. Violations: oracle failures (fail-*.case written by the
    target) and crash-* artifacts; timeout/oom/slow-unit artifacts are ignored (budget hit = inconclusive for the fuzz part)."""
    import re
    try:
        fz = B.build('fuzz', (target,))
        rp = B.build('asan', ('replay',), quiet=True)
    except RuntimeError as e:
        res.broken = (res.broken or '') + ' fuzz target %s does not build: %s' % (target, str(e)[-400:].replace('\n', ' '))
        return
    root = os.path.join(WORK, 'fuzz-%s-%d' % (target, os.getpid()))
    shutil.rmtree(root, ignore_errors=True)
    os.makedirs(os.path.join(root, 'seeds'))
    for i, text in enumerate(seeds):
        cp = os.path.join(root, 'seed%d.case' % i)
        with open(cp, 'w') as f:
            f.write(text)
        subprocess.run([rp['replay'], '--dump', cp, os.path.join(root, 'seeds', 'seed%d.bin' % i)], stdout=subprocess.DEVNULL, stderr=subprocess.DEVNULL, env=base_env())
    if not os.listdir(os.path.join(root, 'seeds')):
        with open(os.path.join(root, 'seeds', 'empty'), 'wb') as f:
            f.write(b'\0' * 64)
    procs = []
    for j in range(jobs):
        cdir = os.path.join(root, 'corpus%d' % j); odir = os.path.join(root, 'out%d' % j)
        shutil.copytree(os.path.join(root, 'seeds'), cdir); os.makedirs(odir)
        env = base_env({'VERIF_FUZZ_OUT': odir, 'VERIF_TIER': tier, 'VERIF_OPEN_FINDINGS': open_findings_env()})
        env['ASAN_OPTIONS'] = ASAN_OPTS.replace('exitcode=99', 'exitcode=77').replace('hard_rss_limit_mb=6144', 'hard_rss_limit_mb=3072')
        cmd = [fz[target], '-max_len=%d' % max_len, '-seed=%d' % (seed() * 100 + j + 1), '-max_total_time=%d' % budget_s, '-timeout=20', '-rss_limit_mb=3000',
               '-artifact_prefix=' + odir + '/', '-print_final_stats=1', cdir]
        procs.append((subprocess.Popen(cmd, stdout=subprocess.PIPE, stderr=subprocess.STDOUT, text=True, errors='replace', env=env), odir))
    execs = 0; fails = []
    for p, odir in procs:
        try:
            out, _ = p.communicate(timeout=budget_s + 120)
        except subprocess.TimeoutExpired:
            p.kill(); out, _ = p.communicate()
        m = re.search(r'stat::number_of_executed_units:\s*(\d+)', out)
        if m:
            execs += int(m.group(1))
        else:
            ms = re.findall(r'#(\d+)\s', out)
            if ms:
                execs += int(ms[-1])
        for fcase in glob.glob(os.path.join(odir, 'fail-*.case')):
            with open(fcase) as f:
                fails.append((f.read(), 'oracle failure in fuzz target', False))
        crashes = glob.glob(os.path.join(odir, 'crash-*'))
        if crashes and not glob.glob(os.path.join(odir, 'fail-*.case')):
            cur = glob.glob(os.path.join(odir, 'current-*.case'))
            if cur:
                with open(cur[0]) as f:
                    fails.append((f.read(), 'sanitizer crash in fuzz target: ' + ' '.join(l for l in out.splitlines() if 'ERROR' in l or 'SUMMARY' in l)[:300], True))
            else:
                with open(crashes[0], 'rb') as f:
                    raw = f.read()
                text = 'property: %s\nbytes %s\nload\n' % (prop, ' '.join(str(b) for b in raw))
                fails.append((text, 'sanitizer crash in fuzz target: ' + ' '.join(l for l in out.splitlines() if 'ERROR' in l or 'SUMMARY' in l)[:300], True))
    opens = open_findings_env()
    seen = set()
    for text, msg, crash in fails:
        if text in seen:
            continue
        seen.add(text)
        pr = prop
        for l in text.splitlines():
            if l.startswith('property:'):
                pr = l.split(':', 1)[1].strip() or prop
        confirm_and_report(res, prop, rp['replay'], text.replace('property: ' + pr, 'property: ' + pr), msg, crash, {'VERIF_OPEN_FINDINGS': opens, 'VERIF_TIER': tier})
    shutil.rmtree(root, ignore_errors=True)
    cov['fuzz_' + target] = {'executions': execs, 'jobs': jobs, 'budget_s_per_job': budget_s, 'engine': 'libFuzzer -seed=VERIF_SEED*100+job, fresh corpus from %d seed file(s); only oracle failures and crash artifacts count' % len(seeds)}
    return execs

def cmd_replay(prop, path):
    flavour = 'asan'
    bins = B.build(flavour, ('replay',))
    opens = open_findings_env()
    rc, out = run_replay(bins['replay'], path, prop, {'VERIF_OPEN_FINDINGS': opens})
    sys.stdout.write(out)
    if rc == 1 or is_crash(rc, out):
        print('VIOLATION property=%s replay=%s' % (prop, path))
        return 1
    return 0

def main(argv):
    import props as P
    if not argv:
        print(__doc__); return 2
    cmd = argv[0]
    if cmd == 'setup':
        for fl, kinds in P.SETUP_BUILDS:
            B.build(fl, kinds)
        B.build_cmake_traces()
        return 0
    if cmd == 'build':
        for fl in argv[1:]:
            B.build(fl, ('pbt', 'replay'))
        return 0
    if cmd == 'run':
        prop = argv[1]
        tier = os.environ.get('VERIF_TIER', 'quick')
        if '--tier' in argv:
            tier = argv[argv.index('--tier') + 1]
        if tier not in ('quick', 'thorough'):
            tier = 'quick'
        os.environ['VERIF_TIER'] = tier
        if prop not in P.RUNNERS:
            print('unknown property', prop); return 2
        return P.RUNNERS[prop](tier)
    if cmd == 'replay':
        prop, path = argv[1], argv[2]
        if prop in P.REPLAYERS:
            return P.REPLAYERS[prop](path)
        return cmd_replay(prop, path)
    print('unknown command', cmd)
    return 2
