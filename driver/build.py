"""Content-addressed build of the harness against /repo's current working tree (nothing under /tmp)."""
import hashlib, os, subprocess, sys, glob, shutil, time
from concurrent.futures import ThreadPoolExecutor

VERIF = os.path.dirname(os.path.dirname(os.path.abspath(__file__)))
REPO = os.environ.get('VERIF_REPO', '/repo')
CACHE = os.path.join(VERIF, '.cache')
SRC = os.path.join(VERIF, 'src')
GUARD = '-DEZC3D_VERIF'

def sh(cmd, **kw):
    return subprocess.run(cmd, stdout=subprocess.PIPE, stderr=subprocess.STDOUT, text=True, **kw)

def file_hash(path):
    h = hashlib.sha1()
    with open(path, 'rb') as f:
        h.update(f.read())
    return h.hexdigest()

def headers_hash():
    h = hashlib.sha1()
    files = sorted(glob.glob(os.path.join(REPO, 'include', '*.h'))) + \
        sorted(glob.glob(os.path.join(SRC, '**', '*.hpp'), recursive=True))
    for p in files:
        h.update(p.encode()); h.update(file_hash(p).encode())
    return h.hexdigest()

def repo_hash():
    h = hashlib.sha1()
    for p in sorted(glob.glob(os.path.join(REPO, 'src', '*.cpp'))) + sorted(glob.glob(os.path.join(REPO, 'include', '*.h'))) + \
            [os.path.join(REPO, 'CMakeLists.txt')]:
        h.update(p.encode()); h.update(file_hash(p).encode())
    return h.hexdigest()

# flavour -> compiler + flags
FLAVOURS = {
    'asan': dict(cxx='g++', lib=['-std=gnu++11', '-O1', '-g', '-fsanitize=address', '-fno-omit-frame-pointer', '-D_GLIBCXX_ASSERTIONS', GUARD, '-w'],
                 har=['-std=gnu++17', '-O1', '-g', '-fsanitize=address', '-fno-omit-frame-pointer', '-D_GLIBCXX_ASSERTIONS', GUARD],
                 link=['-fsanitize=address']),
    'plain': dict(cxx='g++', lib=['-std=gnu++11', '-O1', '-g', GUARD, '-w'],
                  har=['-std=gnu++17', '-O1', '-g', GUARD], link=[]),
    'tsan': dict(cxx='clang++', lib=['-std=gnu++11', '-O1', '-g', '-fsanitize=thread', GUARD, '-w'],
                 har=['-std=gnu++17', '-O1', '-g', '-fsanitize=thread', GUARD], link=['-fsanitize=thread', '-pthread']),
    'fuzz': dict(cxx='clang++', lib=['-std=gnu++11', '-O1', '-g', '-fsanitize=fuzzer-no-link,address', '-fno-omit-frame-pointer', '-D_GLIBCXX_ASSERTIONS', GUARD, '-w'],
                 har=['-std=gnu++17', '-O1', '-g', '-fsanitize=fuzzer-no-link,address', '-fno-omit-frame-pointer', '-D_GLIBCXX_ASSERTIONS', GUARD],
                 link=['-fsanitize=fuzzer,address']),
}

def _compile(cxx, flags, src, hdrh):
    key = hashlib.sha1((cxx + ' '.join(flags) + file_hash(src) + hdrh + src).encode()).hexdigest()
    obj = os.path.join(CACHE, 'obj', key + '.o')
    if os.path.exists(obj):
        os.utime(obj, None)
        return obj, None
    os.makedirs(os.path.dirname(obj), exist_ok=True)
    tmp = obj + '.%d.tmp' % os.getpid()
    cmd = [cxx] + flags + ['-I', os.path.join(REPO, 'include'), '-I', SRC, '-c', src, '-o', tmp]
    r = sh(cmd)
    if r.returncode != 0:
        return None, 'compile failed: %s\n%s' % (' '.join(cmd), r.stdout[-6000:])
    os.replace(tmp, obj)
    return obj, None

def purge_cache(max_bytes=3 << 30):
    d = os.path.join(CACHE, 'obj')
    if not os.path.isdir(d):
        return
    ents = [(os.path.getmtime(os.path.join(d, f)), os.path.getsize(os.path.join(d, f)), os.path.join(d, f)) for f in os.listdir(d)]
    total = sum(e[1] for e in ents)
    for m, s, p in sorted(ents):
        if total <= max_bytes:
            break
        try:
            os.remove(p); total -= s
        except OSError:
            pass

def harness_sources(kind):
    common = sorted(glob.glob(os.path.join(SRC, 'common', '*.cpp')))
    props = sorted(glob.glob(os.path.join(SRC, 'props', '*.cpp')))
    gens = sorted(glob.glob(os.path.join(SRC, 'gen', '*.cpp')))
    if kind == 'pbt':
        return common + props + gens + [os.path.join(SRC, 'main_pbt.cpp')], ['-lrapidcheck']
    if kind == 'replay':
        return common + props + [os.path.join(SRC, 'main_replay.cpp')], []
    if kind == 'mt':
        return common + [os.path.join(SRC, 'main_mt.cpp')], ['-pthread']
    if kind == 'trace':
        return common + [os.path.join(SRC, 'main_trace.cpp')], []
    if kind.startswith('fuzz_'):
        return common + props + [os.path.join(SRC, 'fuzz', kind + '.cpp')], []
    raise ValueError(kind)

# ---- several ./check processes may share the cache (other properties, other VERIF_REPO trees): a directory is never evicted while a
# live process has marked it as in use
_marked = set()
def _mark_in_use(d):
    import atexit
    f = os.path.join(d, '.inuse-%d' % os.getpid())
    if f in _marked:
        return
    try:
        open(f, 'w').close()
    except OSError:
        return
    if not _marked:
        atexit.register(lambda: [os.path.exists(x) and os.remove(x) for x in list(_marked)])
    _marked.add(f)

def _in_use(d):
    for f in glob.glob(os.path.join(d, '.inuse-*')):
        try:
            pid = int(f.rsplit('-', 1)[1])
        except ValueError:
            continue
        if pid == os.getpid():
            return True
        try:
            os.kill(pid, 0)
            return True
        except ProcessLookupError:
            try: os.remove(f)
            except OSError: pass
        except PermissionError:
            return True
    return False

def build(flavour, kinds=('pbt', 'replay'), quiet=False):
    """Returns dict kind -> binary path. Raises RuntimeError on failure."""
    fl = FLAVOURS[flavour]
    hdrh = headers_hash()
    libsrcs = sorted(glob.glob(os.path.join(REPO, 'src', '*.cpp')))
    jobs = [(fl['cxx'], fl['lib'], s) for s in libsrcs]
    per_kind = {}
    for k in kinds:
        srcs, libs = harness_sources(k)
        per_kind[k] = (srcs, libs)
        for s in srcs:
            jobs.append((fl['cxx'], fl['har'], s))
    # de-duplicate
    uniq = {}
    for j in jobs:
        uniq[(j[0], tuple(j[1]), j[2])] = j
    t0 = time.time()
    with ThreadPoolExecutor(max_workers=int(os.environ.get('VERIF_JOBS', '16'))) as ex:
        res = list(ex.map(lambda j: (j, _compile(j[0], j[1], j[2], hdrh)), uniq.values()))
    objs = {}
    for j, (obj, err) in res:
        if err:
            raise RuntimeError(err)
        objs[(tuple(j[1]), j[2])] = obj
    out = {}
    for k, (srcs, libs) in per_kind.items():
        olist = [objs[(tuple(fl['lib']), s)] for s in libsrcs] + [objs[(tuple(fl['har']), s)] for s in srcs]
        lkey = hashlib.sha1((' '.join(olist) + ' '.join(fl['link']) + ' '.join(libs)).encode()).hexdigest()[:20]
        bdir = os.path.join(CACHE, 'bin', '%s-%s-%s' % (flavour, k, lkey))
        binp = os.path.join(bdir, k)
        if not os.path.exists(binp):
            # remove older binaries of the same flavour/kind
            for old in glob.glob(os.path.join(CACHE, 'bin', '%s-%s-*' % (flavour, k))):
                if not _in_use(old):
                    shutil.rmtree(old, ignore_errors=True)
            os.makedirs(bdir, exist_ok=True)
            cmd = [fl['cxx']] + olist + fl['link'] + libs + ['-o', binp + '.tmp']
            r = sh(cmd)
            if r.returncode != 0:
                raise RuntimeError('link failed: %s\n%s' % (' '.join(cmd[:3]) + ' ...', r.stdout[-6000:]))
            os.replace(binp + '.tmp', binp)
        _mark_in_use(bdir)
        out[k] = binp
    purge_cache()
    if not quiet:
        print('[build] %s %s in %.1fs' % (flavour, ','.join(kinds), time.time() - t0), file=sys.stderr)
    return out


# ---- C19: the project's own CMake builds ----------------------------------------------------------
CMAKE_CONFIGS = [(bt, sh) for bt in ('Debug', 'RelWithDebInfo', 'Release') for sh in ('ON', 'OFF')]

def build_cmake_traces():
    """Builds /repo with its CMakeLists in 6 configurations (scratch trees under .cache/cmake/<hash>) and links the trace
    driver against each. Returns dict 'BuildType-shared|static' -> (trace binary, env)."""
    h = repo_hash()[:16]
    root = os.path.join(CACHE, 'cmake', h)
    for old in glob.glob(os.path.join(CACHE, 'cmake', '*')):
        if old != root and not _in_use(old):
            shutil.rmtree(old, ignore_errors=True)
    os.makedirs(root, exist_ok=True)
    _mark_in_use(root)
    hdrh = headers_hash()
    out = {}
    def one(cfg):
        bt, sh = cfg
        name = '%s-%s' % (bt, 'shared' if sh == 'ON' else 'static')
        bdir = os.path.join(root, name)
        libname = 'ezc3d_debug' if bt == 'Debug' else 'ezc3d'
        lib = os.path.join(bdir, 'lib%s.%s' % (libname, 'so' if sh == 'ON' else 'a'))
        if not os.path.exists(lib):
            os.makedirs(bdir, exist_ok=True)
            r = sh_(['cmake', '-G', 'Ninja', '-S', REPO, '-B', bdir, '-DBUILD_EXAMPLE=OFF', '-DBUILD_SHARED_LIBS=' + sh, '-DCMAKE_BUILD_TYPE=' + bt])
            if r.returncode != 0:
                raise RuntimeError('cmake configure failed for %s: %s' % (name, r.stdout[-2000:]))
            r = sh_(['cmake', '--build', bdir, '--target', 'ezc3d'])
            if r.returncode != 0 or not os.path.exists(lib):
                raise RuntimeError('cmake build failed for %s: %s' % (name, r.stdout[-2000:]))
        return name, bdir, lib, libname, sh
    with ThreadPoolExecutor(max_workers=6) as ex:
        built = list(ex.map(one, CMAKE_CONFIGS))
    # harness objects: compiled once with plain flags, no sanitizer (the library under test is the CMake one)
    flags = ['-std=gnu++17', '-O1', '-g', GUARD]
    srcs, _ = harness_sources('trace')
    with ThreadPoolExecutor(max_workers=16) as ex:
        objs = list(ex.map(lambda s: _compile('g++', flags, s, hdrh), srcs))
    for o, err in objs:
        if err:
            raise RuntimeError(err)
    olist = [o for o, _ in objs]
    for name, bdir, lib, libname, sh in built:
        binp = os.path.join(bdir, 'trace')
        key = os.path.join(bdir, 'trace.key')
        want = hashlib.sha1((' '.join(olist) + file_hash(lib)).encode()).hexdigest()
        have = open(key).read() if os.path.exists(key) else ''
        if have != want or not os.path.exists(binp):
            if sh == 'ON':
                cmd = ['g++'] + olist + ['-L', bdir, '-l' + libname, '-Wl,-rpath,' + bdir, '-o', binp]
            else:
                cmd = ['g++'] + olist + [lib, '-o', binp]
            r = sh_(cmd)
            if r.returncode != 0:
                raise RuntimeError('link of trace driver failed for %s: %s' % (name, r.stdout[-2000:]))
            with open(key, 'w') as f:
                f.write(want)
        out[name] = binp
    return out

def sh_(cmd):
    return subprocess.run(cmd, stdout=subprocess.PIPE, stderr=subprocess.STDOUT, text=True)
