"""Per-property run definitions (tiers, case counts, floors)."""
import vdriver as V

SETUP_BUILDS = [('asan', ('pbt', 'replay'))]
RUNNERS = {}
REPLAYERS = {}

def reg(prop):
    def deco(fn):
        RUNNERS[prop] = fn
        return fn
    return deco

@reg('C01')
def c01(tier):
    return V.generic_pbt('C01', tier, n_quick=3000, n_thorough=100000, floor=100,
                         assumptions=['frames are complete (declared shape) when saved; strings printable ASCII; names unique modulo case',
                                      'channel identity is positional (README submits unnamed channels)'])
