"""Per-property run definitions (tiers, case counts, floors)."""
import vdriver as V

SETUP_BUILDS = [('asan', ('pbt', 'replay'))]
RUNNERS = {}
REPLAYERS = {}

def reg(prop):
    def deco(fn):
        RUNNERS[prop] = fn
        return fn
    return deco

@reg('C01')
def c01(tier):
    return V.generic_pbt('C01', tier, n_quick=3000, n_thorough=100000, floor=100,
                         assumptions=['frames are complete (declared shape) when saved; strings printable ASCII; names unique modulo case',
                                      'channel identity is positional (README submits unnamed channels)'])

API_ASSUME = ['points and channels are declared by name before frames are added (README); frames carry the declared shape or a documented deviation',
              'frames are only added to objects that declare at least one point or channel (adding empty frames to an empty object is undocumented)',
              'strings printable ASCII; names unique modulo case']

@reg('C05')
def c05(tier):
    return V.generic_pbt('C05', tier, n_quick=3000, n_thorough=100000, floor=100, assumptions=API_ASSUME)

@reg('C06')
def c06(tier):
    return V.generic_pbt('C06', tier, n_quick=3000, n_thorough=100000, floor=100, assumptions=API_ASSUME)

@reg('C08')
def c08(tier):
    return V.generic_pbt('C08', tier, n_quick=3000, n_thorough=100000, floor=100, assumptions=API_ASSUME +
                         ['only caller-owned objects are mutated (copies of stored frames obtained through accessors are shallow by design)'])

@reg('C10')
def c10(tier):
    return V.generic_pbt('C10', tier, n_quick=3000, n_thorough=100000, floor=100, assumptions=API_ASSUME)

@reg('C07')
def c07(tier):
    return V.generic_pbt('C07', tier, n_quick=4000, n_thorough=120000, floor=100, assumptions=API_ASSUME +
                         ['deviations the documentation does not mention (sub-frame count, undeclared columns, duplicated names inside one frame) may be accepted or refused; the history ends there'])

@reg('C09')
def c09(tier):
    return V.generic_pbt('C09', tier, n_quick=5000, n_thorough=200000, floor=100, assumptions=API_ASSUME +
                         ['mandatory POINT/ANALOG parameters are only touched by the documented declaration calls; custom parameter names never collide with them',
                          'arrays are capped at 3000 elements (600 strings): larger shapes are exercised only as refused calls'])

@reg('C11')
def c11(tier):
    return V.generic_pbt('C11', tier, n_quick=2500, n_thorough=60000, floor=100, assumptions=API_ASSUME +
                         ['name look-up is exact and case-sensitive (a padded query is a different name); expected results come from a list model built from the positional accessors'])

FILE_ASSUME = ['files are little-endian, float format, header consistent with POINT/ANALOG parameters, POINT and ANALOG groups present',
               'strings printable ASCII without NUL; equality modulo trailing spaces; group and parameter order is not compared (name-keyed)',
               'the reference encoder/decoder pair is checked against itself on every case; a disagreement discards the case']

@reg('C02')
def c02(tier):
    return V.generic_pbt('C02', tier, n_quick=4000, n_thorough=150000, floor=100, assumptions=FILE_ASSUME)

@reg('C04')
def c04(tier):
    return V.generic_pbt('C04', tier, n_quick=3000, n_thorough=100000, floor=100, assumptions=FILE_ASSUME +
                         ['3 generations (quick) / 4 (thorough); the three vendor files of the test suite are fixed seeds'])

def c03_sweep_cases(tier):
    """Enumerated sweep of the parameter-section length: a padding parameter of n ints (2n bytes) and a description of d chars
    makes (length mod 512) take every residue 0..511 (n in 0..255, d in 0..1), for 1 (quick) or 3 (thorough) object shapes."""
    import os
    d = os.path.join(V.WORK, 'c03-sweep-%d' % os.getpid())
    os.makedirs(d, exist_ok=True)
    shapes = {
        'frames': 'declp 1 0\ndeclp 2 0\ndecla 3 0\nprate 8\narate 1\nfbuild 0 0 11\nfsub 0 0 0\nfbuild 1 0 12\nfsub 1 0 0\n',
        'noframes': 'declp 4 0\nparam 5 1 2 1 3 77 2 0\nlockg 5\n',
        'loaded': 'flayout 512 3 1 1 0 0\nfshape 2 1 2 3 5 3 0 0 9\nfhdr 3 0 0 12345 2 5 0\nfids 4 1 7\nfgroup 9 1 130 1\nforder 3 1\nload\ndeclp 6 0\n',
    }
    use = ['frames', 'noframes', 'loaded'] if tier == 'thorough' else ['frames']
    paths = []
    for sh in use:
        for n in range(256):
            for dd in range(2):
                p = os.path.join(d, '%s-%03d-%d.case' % (sh, n, dd))
                with open(p, 'w') as f:
                    f.write('property: C03\n' + shapes[sh] + 'padp %d %d\n' % (n, dd))
                paths.append(p)
    return d, paths

@reg('C03')
def c03(tier):
    import shutil
    d, paths = c03_sweep_cases(tier)
    try:
        return V.generic_pbt('C03', tier, n_quick=3000, n_thorough=60000, floor=500, assumptions=API_ASSUME + FILE_ASSUME[:2], extra_cases=paths,
                             extra_cov={'residue_sweep': 'all 512 residues of (parameter-section length mod 512) enumerated x %d object shape(s)' % (3 if tier == 'thorough' else 1)})
    finally:
        shutil.rmtree(d, ignore_errors=True)
