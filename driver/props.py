"""Per-property run definitions (tiers, case counts, floors)."""
import vdriver as V

SETUP_BUILDS = [('asan', ('pbt', 'replay'))]
RUNNERS = {}
REPLAYERS = {}

def reg(prop):
    def deco(fn):
        RUNNERS[prop] = fn
        return fn
    return deco

@reg('C01')
def c01(tier):
    return V.generic_pbt('C01', tier, n_quick=3000, n_thorough=100000, floor=100,
                         assumptions=['frames are complete (declared shape) when saved; strings printable ASCII; names unique modulo case',
                                      'channel identity is positional (README submits unnamed channels)'])

API_ASSUME = ['points and channels are declared by name before frames are added (README); frames carry the declared shape or a documented deviation',
              'frames are only added to objects that declare at least one point or channel (adding empty frames to an empty object is undocumented)',
              'strings printable ASCII; names unique modulo case']

@reg('C05')
def c05(tier):
    return V.generic_pbt('C05', tier, n_quick=3000, n_thorough=100000, floor=100, assumptions=API_ASSUME)

@reg('C06')
def c06(tier):
    return V.generic_pbt('C06', tier, n_quick=3000, n_thorough=100000, floor=100, assumptions=API_ASSUME)

@reg('C08')
def c08(tier):
    return V.generic_pbt('C08', tier, n_quick=3000, n_thorough=100000, floor=100, assumptions=API_ASSUME +
                         ['only caller-owned objects are mutated (copies of stored frames obtained through accessors are shallow by design)'])

@reg('C10')
def c10(tier):
    return V.generic_pbt('C10', tier, n_quick=3000, n_thorough=100000, floor=100, assumptions=API_ASSUME)

@reg('C07')
def c07(tier):
    return V.generic_pbt('C07', tier, n_quick=4000, n_thorough=120000, floor=100, assumptions=API_ASSUME +
                         ['deviations the documentation does not mention (sub-frame count, undeclared columns, duplicated names inside one frame) may be accepted or refused; the history ends there'])

@reg('C09')
def c09(tier):
    return V.generic_pbt('C09', tier, n_quick=5000, n_thorough=200000, floor=100, assumptions=API_ASSUME +
                         ['mandatory POINT/ANALOG parameters are only touched by the documented declaration calls; custom parameter names never collide with them',
                          'arrays are capped at 3000 elements (600 strings): larger shapes are exercised only as refused calls'])

@reg('C11')
def c11(tier):
    return V.generic_pbt('C11', tier, n_quick=2500, n_thorough=60000, floor=100, assumptions=API_ASSUME +
                         ['name look-up is exact and case-sensitive (a padded query is a different name); expected results come from a list model built from the positional accessors'])
