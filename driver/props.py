"""Per-property run definitions (tiers, case counts, floors)."""
import vdriver as V

SETUP_BUILDS = [('asan', ('pbt', 'replay')), ('plain', ('replay',)), ('tsan', ('mt',)), ('fuzz', ('fuzz_c16', 'fuzz_c02'))]
RUNNERS = {}
REPLAYERS = {}

def reg(prop):
    def deco(fn):
        RUNNERS[prop] = fn
        return fn
    return deco

@reg('C01')
def c01(tier):
    return V.generic_pbt('C01', tier, n_quick=60000, n_thorough=1000000, floor=100,
                         assumptions=['frames are complete (declared shape) when saved; strings printable ASCII; names unique modulo case',
                                      'channel identity is positional (README submits unnamed channels)'])

API_ASSUME = ['points and channels are declared by name before frames are added (README); frames carry the declared shape or a documented deviation',
              'frames are only added to objects that declare at least one point or channel (adding empty frames to an empty object is undocumented)',
              'strings printable ASCII; names unique modulo case']
# C06, C07, C08 also add frames to objects without declarations (the stored-frame-list and accept/refuse oracles do not depend on them)
API_ASSUME_UNDECL = [API_ASSUME[0], 'frames are also added to objects that declare nothing (the oracle of this property does not depend on declarations)',
                     'strings printable ASCII with occasional control whitespace; names unique modulo case']
# C09, C10: names may be case variants of each other and longer than a file can hold; such objects are not saved by the script
API_ASSUME_NAMES = API_ASSUME[:2] + ['strings printable ASCII with occasional control whitespace; group / parameter names may differ only by letter case or exceed 127 characters (descriptions 255): legal in memory, such objects are never saved by the script']

@reg('C05')
def c05(tier):
    return V.generic_pbt('C05', tier, n_quick=80000, n_thorough=1000000, floor=100, assumptions=API_ASSUME)

@reg('C06')
def c06(tier):
    return V.generic_pbt('C06', tier, n_quick=80000, n_thorough=1000000, floor=100, assumptions=API_ASSUME_UNDECL)

@reg('C08')
def c08(tier):
    return V.generic_pbt('C08', tier, n_quick=80000, n_thorough=400000, floor=100, assumptions=API_ASSUME_UNDECL +
                         ['only caller-owned objects are mutated (copies of stored frames obtained through accessors are shallow by design)'])

@reg('C10')
def c10(tier):
    return V.generic_pbt('C10', tier, n_quick=80000, n_thorough=1000000, floor=100, assumptions=API_ASSUME_NAMES)

@reg('C07')
def c07(tier):
    return V.generic_pbt('C07', tier, n_quick=80000, n_thorough=1000000, floor=100, assumptions=API_ASSUME_UNDECL +
                         ['deviations the documentation does not mention (sub-frame count, undeclared columns, duplicated names inside one frame) may be accepted or refused; the history ends there'])

@reg('C09')
def c09(tier):
    return V.generic_pbt('C09', tier, n_quick=80000, n_thorough=1000000, floor=100, assumptions=API_ASSUME_NAMES +
                         ['mandatory POINT/ANALOG parameters are only touched by the documented declaration calls; custom parameter names never collide with them',
                          'arrays are capped at 3000 elements (600 strings): larger shapes are exercised only as refused calls'])

@reg('C11')
def c11(tier):
    return V.generic_pbt('C11', tier, n_quick=60000, n_thorough=600000, floor=100, assumptions=API_ASSUME +
                         ['name look-up is exact and case-sensitive (a padded query is a different name); expected results come from a list model built from the positional accessors'])

FILE_ASSUME = ['files are little-endian, float format, header consistent with POINT/ANALOG parameters, POINT and ANALOG groups present',
               'strings printable ASCII without NUL; equality modulo trailing spaces; group and parameter order is not compared (name-keyed)',
               'the reference encoder/decoder pair is checked against itself on every case; a disagreement discards the case']

@reg('C02')
def c02(tier):
    return V.generic_pbt('C02', tier, n_quick=40000, n_thorough=400000, floor=100, assumptions=FILE_ASSUME,
                         fuzz=[{'target': 'fuzz_c02', 'seeds': [], 'budget': (10, 300), 'jobs': (8, 16), 'max_len': 600}])

@reg('C04')
def c04(tier):
    return V.generic_pbt('C04', tier, n_quick=16000, n_thorough=200000, floor=100, assumptions=FILE_ASSUME +
                         ['3 generations (quick) / 4 (thorough); the three vendor files of the test suite are fixed seeds'])

def c03_sweep_cases(tier):
    """Enumerated sweep of the parameter-section length: a padding parameter of n ints (2n bytes) and a description of d chars
    makes (length mod 512) take every residue 0..511 (n in 0..255, d in 0..1), for 1 (quick) or 3 (thorough) object shapes."""
    import os
    d = os.path.join(V.WORK, 'c03-sweep-%d' % os.getpid())
    os.makedirs(d, exist_ok=True)
    shapes = {
        'frames': 'declp 1 0\ndeclp 2 0\ndecla 3 0\nprate 8\narate 1\nfbuild 0 0 11\nfsub 0 0 0\nfbuild 1 0 12\nfsub 1 0 0\n',
        'noframes': 'declp 4 0\nparam 5 1 2 1 3 77 2 0\nlockg 5\n',
        'loaded': 'flayout 512 3 1 1 0 0\nfshape 2 1 2 3 5 3 0 0 9\nfhdr 3 0 0 12345 2 5 0\nfids 4 1 7\nfgroup 9 1 130 1\nforder 3 1\nload\ndeclp 6 0\n',
    }
    use = ['frames', 'noframes', 'loaded'] if tier == 'thorough' else ['frames']
    paths = []
    for sh in use:
        for n in range(256):
            for dd in range(2):
                p = os.path.join(d, '%s-%03d-%d.case' % (sh, n, dd))
                with open(p, 'w') as f:
                    f.write('property: C03\n' + shapes[sh] + 'padp %d %d\n' % (n, dd))
                paths.append(p)
    return d, paths

@reg('C03')
def c03(tier):
    import shutil
    d, paths = c03_sweep_cases(tier)
    try:
        return V.generic_pbt('C03', tier, n_quick=40000, n_thorough=600000, floor=500, assumptions=API_ASSUME + FILE_ASSUME[:2], extra_cases=paths,
                             extra_cov={'residue_sweep': 'all 512 residues of (parameter-section length mod 512) enumerated x %d object shape(s)' % (3 if tier == 'thorough' else 1)})
    finally:
        shutil.rmtree(d, ignore_errors=True)

def c12_cases(tier):
    """Enumerations: all 256 byte values, all 65536 int16 values, boundary-dense (thorough: exhaustive for three) header words,
    float patterns sign x exponent x mantissa class in parameters, point/analog data and event times."""
    import os, random
    d = os.path.join(V.WORK, 'c12-enum-%d' % os.getpid())
    os.makedirs(d, exist_ok=True)
    paths = []
    def emit(name, body):
        p = os.path.join(d, name + '.case')
        with open(p, 'w') as f:
            f.write('property: C12\n' + body + 'load\n')
        paths.append(p)
    base = 'flayout 0 2 0 0 0 0\nfids 0 1 3\n'
    emit('byte-all', base + 'fshape 2 1 2 2 1 7 0 0 5\nfenumbyte\n')
    for blk in range(4):
        emit('int-%d' % blk, base + 'fshape 1 0 1 1 1 7 0 0 5\nfenumint %d\n' % blk)
    # floats: 2 x 256 x 7 = 3584 patterns
    emit('float-param', base + 'fshape 1 0 1 1 1 7 0 0 5\nfenumflt 0\n')
    emit('float-points', base + 'fshape 16 0 1 56 1 7 0 0 5\nfdataenum 0\n')          # 16 x 4 x 56 = 3584 point floats
    emit('float-analogs', base + 'fshape 0 16 4 56 1 7 0 0 5\nfdataenum 0\n')        # 16 x 4 x 56 = 3584 analog floats
    emit('float-mixed', base + 'fshape 8 8 4 56 1 7 0 0 5\nfdataenum 0\n')
    for st in range(0, 3584, 18):
        emit('float-events-%d' % st, base + 'fshape 1 0 1 1 1 7 0 0 5\nfevtenum %d\n' % st)
    # header words: fhdr <gap> <keyLabelPresent> <firstBlockKeyLabel> <fourChar> <nEvents> <evseed> <rawdisp>
    bd = [0, 1, 2, 127, 128, 255, 256, 257, 32766, 32767, 32768, 32769, 65534, 65535, 12345]
    rnd = random.Random(V.seed())
    extra = 200 if tier == 'quick' else 2000
    vals = bd + [rnd.randrange(65536) for _ in range(extra)]
    shape1 = 'fshape 1 0 1 1 1 7 0 0 5\n'
    for w in range(4):
        space = range(65536) if (tier == 'thorough' and w < 3) else vals
        for v in space:
            a = [10, 0, 0, 12345]
            a[w] = v
            emit('hdr-w%d-%d' % (w, v), base + shape1 + 'fhdr %d %d %d %d 0 0 0\n' % tuple(a))
    for v in sorted(set([1, 2, 127, 128, 255, 256, 257, 32766, 32767, 32768, 32769, 65534, 65535] + [rnd.randrange(1, 65536) for _ in range(extra)])):
        emit('first-%d' % v, base + 'fshape 1 0 1 1 %d 7 0 0 5\n' % v)
    # frame rates: arbitrary finite positive patterns (header words 11-12 and POINT:RATE must come back bit for bit)
    import struct
    for k in range(40 if tier == 'quick' else 600):
        e = rnd.randrange(117, 143)          # 2^-10 .. 2^15
        bits = (e << 23) | rnd.randrange(1 << 23)
        emit('rate-%08x' % bits, base + 'fshape 2 0 1 2 1 7 0 0 5\nfrawrate %d\n' % bits)
    # scale factor words of a file WITHOUT frames (nothing is scaled): sign x exponent class x mantissa class, and plain integers
    for sign in (0, 1):
        for e in (0, 1, 2, 126, 127, 128, 254, 255):
            for m in (0, 1, 0x400000, 0x7FFFFF):
                emit('scale-%d-%d-%x' % (sign, e, m), base + 'fshape 0 0 1 0 1 7 0 0 5\nfrawscale %d\n' % ((sign << 31) | (e << 23) | m))
    for v in (1, 2, 0x7FFF, 0x8000, 0xFFFF, 0x10000):
        emit('scale-int-%x' % v, base + 'fshape 2 0 1 0 1 7 0 0 5 2\nfrawscale %d\n' % v)      # declared points, no frame yet (template file)
    for n in range(19):
        emit('nevents-%d' % n, base + shape1 + 'fhdr 10 0 0 12345 %d %d 0\n' % (n, 100 + n))
    for k in range(20 if tier == 'quick' else 300):
        emit('evdisp-%d' % k, base + shape1 + 'fhdr 10 0 0 12345 18 %d %d\n' % (k + 1, 1000 + k))
    return d, paths

@reg('C12')
def c12(tier):
    import shutil
    d, paths = c12_cases(tier)
    try:
        return V.generic_pbt('C12', tier, n_quick=12000, n_thorough=100000, floor=200, assumptions=FILE_ASSUME, extra_cases=paths,
                             extra_cov={'exhaustive': True,
                                        'exhaustive_note': 'all 2^8 byte values and all 2^16 int16 values in parameters, 2 x 256 x 7 float patterns (sign x exponent x mantissa class) in float parameters, point coordinates+residuals, analog samples and event times are enumerated completely; header words are boundary-dense (quick) / exhaustive for gap, key-label and first-key-block words (thorough); the rapidcheck part adds random files with raw 32-bit float patterns',
                                        'enumerated_cases': len(paths)})
    finally:
        shutil.rmtree(d, ignore_errors=True)

C16_BASES = [
    'flayout 0 2 0 1 0 0\nfshape 2 1 2 2 1 7 0 0 5\nfhdr 10 0 0 12345 2 9 0\nfids 0 1 3\nfgroup 5 1 3 0\nfparam 2 1 3 2 2 3 0 0 0 0 0 41 5 1\nfparam 2 2 0 2 4 2 0 0 0 0 0 42 0 0\nforder 1 0\n',
    'flayout 512 3 1 0 7 0\nfshape 1 0 1 1 5 3 -1 0 6\nfhdr 3 0 0 12345 0 0 0\nfids 4 9 0\nfparam 0 3 1 1 5 0 0 0 0 0 0 43 130 0\nforder 7 1\n',
    'flayout 0 2 0 0 0 1\nfshape 3 0 1 2 1 9 1 0 7\nfhdr 10 0 0 12345 0 0 0\nfids 0 1 3\nfparam 0 4 2 3 2 2 2 0 0 0 0 44 0 1\nfparam 0 5 0 0 0 0 0 0 0 0 0 45 0 0\nforder 3 2\n',
]

def c16_sweep_cases(tier):
    """Exhaustive small mutations of well-formed base files: every truncation length and every offset x {0,1,0x7F,0x80,0xFF}."""
    import os
    d = os.path.join(V.WORK, 'c16-sweep-%d' % os.getpid())
    os.makedirs(d, exist_ok=True)
    paths = []
    bases = C16_BASES if tier == 'thorough' else C16_BASES[:2]
    step = 48
    for bi, b in enumerate(bases):
        size = 3200          # upper bound; sweeps clip at the real file size
        for a in range(0, size, step):
            for kind in ('sweeptrunc', 'sweeppoke'):
                p = os.path.join(d, 'b%d-%s-%05d.case' % (bi, kind, a))
                with open(p, 'w') as f:
                    f.write('property: C16\n' + b + '%s %d %d\n' % (kind, a, a + step))
                paths.append(p)
    # dimension tables whose products overflow 16 / 32 / 64 bits (all dimension bytes of one record overwritten at once)
    combos = [[128, 128, 128, 128, 64], [128, 128, 128, 128, 16], [128, 128, 128, 128, 32], [64] * 6, [128] * 7, [255] * 7, [255, 255, 255], [16] * 7,
              [128, 128, 128, 128, 128, 2], [255, 255, 255, 255], [2, 128, 128, 128, 128, 64, 2], [0, 255, 255, 255, 255], [255, 255, 255, 255, 0], [255, 255, 255, 255, 255, 255, 0], [128, 128, 4], [255, 129, 2],
              # products beyond 2^32 whose low 32 bits are a small non-zero number (16384, 31224, 18208, 18348)
              [74, 128, 32, 218, 65], [65, 217, 40, 203, 225], [108, 75, 103, 88, 117], [225, 119, 61, 196, 161]]
    for bi, b in enumerate(bases[:1] if tier == 'quick' else bases):
        for k in range(10 if tier == 'thorough' else 6):
            for ty in (0, 1, 2, 4, 255):
                for ci, cb in enumerate(combos):
                    p = os.path.join(d, 'b%d-dims-%d-%d-%d.case' % (bi, k, ty, ci))
                    with open(p, 'w') as f:
                        f.write('property: C16\n' + b + 'dims %d %d %d %s\nload\n' % (k, ty, len(cb), ' '.join(map(str, cb))))
                    paths.append(p)
    return d, paths

@reg('C16')
def c16(tier):
    import shutil
    d, paths = c16_sweep_cases(tier)
    try:
        seeds = ['property: C16\n' + b for b in C16_BASES]
        return V.generic_pbt('C16', tier, n_quick=80000, n_thorough=1500000, floor=500, extra_cases=paths,
                             fuzz=[{'target': 'fuzz_c16', 'seeds': seeds, 'budget': (12, 600), 'jobs': (8, 16), 'max_len': 8192}],
                             assumptions=['work bound: at most 64 x file size + 2^20 read calls (hook H1, deterministic, no wall clock); single allocations above 1 GiB abort under ASan',
                                          'inputs whose header/parameters declare frame data far beyond the file size (known finding KF-D17) are recognised through hook H2, skipped and counted'],
                             extra_cov={'sweep_cases': len(paths), 'sweep': 'every truncation length and every offset x {0,1,0x7F,0x80,0xFF} of %d base files; plus, per parameter record and type byte, 20 dimension tables whose products overflow 16/32/64 bits, wrap to a small 32-bit number, or hold a 0 behind large entries' % (3 if tier == 'thorough' else 2)})
    finally:
        shutil.rmtree(d, ignore_errors=True)

@reg('C13')
def c13(tier):
    return V.generic_pbt('C13', tier, n_quick=80000, n_thorough=1000000, floor=500, assumptions=API_ASSUME +
                         ['monitors: AddressSanitizer (bounds, use-after-free, alloc/dealloc mismatch) and _GLIBCXX_ASSERTIONS (container indexing); LeakSanitizer and UBSan arithmetic are not part of the verdict',
                          'the checks of C01-C12, C14, C16, C17 run under the same monitors and report a memory error as a violation of the property being run'])

C17_LIMITS = {
    # name: (ops template with %d, L, values)
    'param-description': ('limit 0 %d\n', 255, [254, 255, 256, 400]),
    'param-name': ('limit 1 %d\n', 127, [126, 127, 128, 200]),
    'group-name': ('limit 2 %d\n', 127, [126, 127, 128, 200]),
    'dimension-entry': ('limit 3 %d\n', 255, [254, 255, 256, 1000]),
    'string-length': ('limit 4 %d\n', 255, [254, 255, 256, 300]),
    'int-max': ('limit 5 %d\n', 32767, [32766, 32767, 32768, 70000]),
    'int-min': ('limit 5 %d\n', -32768, [-32767, -32768, -32769, -70000]),
    'dimensions': ('limit 10 %d\n', 7, [6, 7, 8]),
    'string-table-255xN': ('limit 13 %d\n', 255, [128, 129, 254, 255]),
    'int-matrix-255xN': ('limit 14 %d\n', 128, [64, 65, 127, 128]),
    'record-size-with-description': ('limit 15 %d\n', 248, [200, 247, 248, 249, 250, 255]),
    # the parameter section filled to the byte: the terminator is the last byte of block 255 at 0, needs a 256th block from 1 on
    'parameter-section-bytes': ('limit 18 %d\n', 0, [-600, -513, -512, -511, -2, -1, 0, 1, 2, 3, 511, 512, 513]),
    'parameter-section-bytes-with-frames': ('declp 1 0\ndecla 1 0\nprate 8\narate 1\nlimit 18 %d\nlimit 8 3\n', 0, [-513, -512, -511, -2, -1, 0, 1, 2, 512]),
    'empty-strings': ('limit 16 %d\n', 255, [1, 254, 255, 256, 300, 1000]),
    'shape-0xN': ('limit 17 %d\n', 255, [254, 255, 256, 300]),
    'points': ('limit 6 %d\nprate 8\nlimit 8 2\n', 255, [254, 255, 256, 300]),
    'channels': ('limit 7 %d\nprate 8\narate 1\nlimit 8 2\n', 255, [254, 255, 256, 300]),
    'subframes-x-channels': ('limit 7 255\nlimit 12 %d\nlimit 8 1\n', 257, [256, 257, 258, 300]),
    'frames': ('declp 1 0\nprate 8\nlimit 8 %d\n', 32767, [32766, 32767, 32768, 40000]),
    'parameter-blocks': ('limit 9 %d\n', 258, [250] + list(range(254, 270)) + [300]),
    # the same sweep on an object that holds frames: the data section then starts right behind the parameter section (block 257 at 255 blocks)
    'parameter-blocks-with-frames': ('declp 1 0\ndeclp 2 0\ndecla 1 0\nprate 8\narate 1\nlimit 9 %d\nlimit 8 3\n', 258, [250] + list(range(254, 270)) + [300]),
}

def c17_cases(tier):
    import os, itertools
    d = os.path.join(V.WORK, 'c17-enum-%d' % os.getpid())
    os.makedirs(d, exist_ok=True)
    paths = []
    def emit(name, body):
        p = os.path.join(d, name + '.case')
        with open(p, 'w') as f:
            f.write('property: C17\n' + body)
        paths.append(p)
    names = sorted(C17_LIMITS)
    for n in names:
        tpl, L, vals = C17_LIMITS[n]
        for v in vals:
            emit('%s=%d' % (n, v), tpl % v)
    # last frame number 65535 (loaded file, saved unchanged) and first-frame offsets around it
    for first in (65534, 65535):
        emit('last-frame-first=%d' % first, 'flayout 0 2 0 0 0 0\nfshape 2 0 1 1 %d 7 0 0 3\nfids 0 1 3\nload\n' % first)
    # group id 127 (a loaded file with a sparse id) is the limit: adding one more group afterwards goes beyond it
    emit('group-id-127', 'flayout 0 2 0 0 0 0\nfshape 1 0 1 1 1 7 0 0 3\nfids 0 1 3\nfgroup 126 1 3 0\nload\n')
    emit('group-id-127-plus-one', 'flayout 0 2 0 0 0 0\nfshape 1 0 1 1 1 7 0 0 3\nfids 0 1 3\nfgroup 126 1 3 0\nload\nlimit 2 5\n')
    heavy = {'frames', 'parameter-blocks', 'parameter-blocks-with-frames', 'subframes-x-channels', 'parameter-section-bytes', 'parameter-section-bytes-with-frames'}
    pairs = list(itertools.combinations(names, 2))
    if tier == 'quick':
        import random
        rnd = random.Random(V.seed())
        pairs = [p for p in pairs if not (p[0] in heavy and p[1] in heavy)]
        rnd.shuffle(pairs)
        pairs = pairs[:20]
    for a, b in pairs:
        if {a, b} & {'points', 'channels', 'subframes-x-channels', 'frames', 'parameter-blocks-with-frames'} == {a, b} or len({a, b} & {'parameter-blocks', 'parameter-blocks-with-frames', 'parameter-section-bytes', 'parameter-section-bytes-with-frames'}) == 2:
            continue          # two shape limits in one object need a common frame set; covered by the random part
        ta, La, va = C17_LIMITS[a]; tb, Lb, vb = C17_LIMITS[b]
        # shape-defining limits go last so that frames carry the final shape
        first, second = (a, b) if b in ('points', 'channels', 'subframes-x-channels', 'frames', 'parameter-blocks-with-frames', 'parameter-section-bytes-with-frames', 'parameter-section-bytes') else (b, a)
        for x in C17_LIMITS[first][2][1:3] if tier == 'quick' else C17_LIMITS[first][2]:
            for y in C17_LIMITS[second][2][1:3] if tier == 'quick' else C17_LIMITS[second][2]:
                emit('%s=%d+%s=%d' % (first, x, second, y), C17_LIMITS[first][0] % x + C17_LIMITS[second][0] % y)
    return d, paths

@reg('C17')
def c17(tier):
    import shutil
    d, paths = c17_cases(tier)
    try:
        return V.generic_pbt('C17', tier, n_quick=4000, n_thorough=20000, floor=40, extra_cases=paths, shards_quick=16,
                             assumptions=['"within capacity" is decided on the snapshot of the object by rules taken from the C3D format (one-byte lengths and dimensions, 16-bit integers and record offsets, 255 parameter blocks, POINT:FRAMES 16-bit signed)',
                                          'beyond a limit either a refusal by write() or a faithful round trip is accepted'],
                             extra_cov={'enumerated_cases': len(paths), 'limits': sorted(C17_LIMITS) + ['last-frame-65535']})
    finally:
        shutil.rmtree(d, ignore_errors=True)

# ---- C14: purity / repeatability in-process, definedness by cross-process poisoning ------------------
def _fnv(text):
    h = 1469598103934665603
    for ch in text.encode('latin-1', 'replace'):
        h ^= ch; h = (h * 1099511628211) & 0xFFFFFFFFFFFFFFFF
    return '%016x' % h

def _c14_poison_pair(plain_replay, case_paths, tier, keep_dir=None, valgrind=False):
    """Runs the cases in two processes with different heap/stack poison; returns (digests_a, digests_b, outputs)."""
    import os, subprocess
    res = []
    import uuid
    tok = '%d-%s' % (os.getpid(), uuid.uuid4().hex[:8])
    lst = os.path.join(V.WORK, 'c14-list-%s.txt' % tok)
    with open(lst, 'w') as f:
        f.write('\n'.join(case_paths) + '\n')
    procs = []
    for tag, byte in (('a', 0x11), ('b', 0x77)):
        dg = os.path.join(V.WORK, 'c14-digest-%s-%s.txt' % (tag, tok))
        st = os.path.join(V.WORK, 'c14-stats-%s-%s.json' % (tag, tok))
        for q in (dg, st):
            if os.path.exists(q):
                os.remove(q)
        env = V.base_env({'VERIF_TIER': tier, 'MALLOC_PERTURB_': str(byte), 'VERIF_STACK_BYTE': str(byte), 'GLIBC_TUNABLES': 'glibc.malloc.tcache_count=0',
                          'VERIF_DIGEST_OUT': dg, 'VERIF_OPEN_FINDINGS': V.open_findings_env()})
        if keep_dir:
            os.makedirs(os.path.join(keep_dir, tag), exist_ok=True)
            env['VERIF_KEEP_DIR'] = os.path.join(keep_dir, tag)
        cmd = [plain_replay, '--batch', lst, st, 'C14']
        p = subprocess.Popen(cmd, stdout=subprocess.PIPE, stderr=subprocess.STDOUT, text=True, errors='replace', env=env)
        procs.append((p, dg, st))
    out = []
    for p, dg, st in procs:
        o, _ = p.communicate()
        d = {}
        if os.path.exists(dg):
            with open(dg) as f:
                for line in f:
                    a = line.split()
                    if len(a) == 3:
                        d[a[0]] = (a[1], int(a[2]))
            os.remove(dg)
        if os.path.exists(st):
            os.remove(st)
        out.append((d, p.returncode, o))
    os.remove(lst)
    return out

def _first_diff_offset(pa, pb):
    with open(pa, 'rb') as f:
        a = f.read()
    with open(pb, 'rb') as f:
        b = f.read()
    n = min(len(a), len(b))
    diffs = [i for i in range(n) if a[i] != b[i]]
    return diffs[:8], len(diffs), len(a), len(b)

@reg('C14')
def c14(tier):
    import os, shutil, subprocess, time, glob
    t0 = time.time()
    res = V.Result()
    try:
        bins = V.B.build('asan', ('pbt', 'replay'))
        plain = V.B.build('plain', ('replay',))
    except RuntimeError as e:
        res.broken = 'build failed: ' + str(e)[:2000]
        return V.finish('C14', tier, 'exploration', res, {'evaluations': 0, 'distinct_nontrivial': 0, 'rule': '', 'samples': []}, t0)
    n = 200000 if tier == 'thorough' else 40000
    shards = 16
    m = V.run_pbt_shards('C14', bins, n, 100, shards, tier)
    env = {'VERIF_TIER': tier, 'VERIF_OPEN_FINDINGS': V.open_findings_env()}
    seen = set()
    for f in m['fails']:
        if f['text'] is None:
            res.broken = 'harness crashed without a current case: ' + f['msg'][-800:]; continue
        if f['text'] in seen:
            continue
        seen.add(f['text'])
        V.confirm_and_report(res, 'C14', bins['replay'], f['text'], f['msg'], f['crash'], env)
    # cross-process poison differential on a frozen corpus
    ncorp = 100000 if tier == 'thorough' else 4000
    cdir = os.path.join(V.WORK, 'c14-corpus-%d' % os.getpid())
    shutil.rmtree(cdir, ignore_errors=True); os.makedirs(cdir)
    nsh = 16 if tier == 'thorough' else 4
    procs = []
    for i in range(nsh):
        sd = os.path.join(cdir, 's%d' % i); os.makedirs(sd)
        procs.append(subprocess.Popen([bins['pbt'], 'C14', '--n', str(ncorp // nsh), '--seed', str(V.seed() * 1000 + 500 + i), '--emit', sd, '--work', V.WORK],
                                      stdout=subprocess.DEVNULL, stderr=subprocess.DEVNULL, env=V.base_env({'VERIF_TIER': tier})))
    for p in procs:
        p.wait()
    cases = sorted(glob.glob(os.path.join(cdir, 's*', '*.case'))) + V.corpus_cases('C14')
    pairs_checked = 0; undefined = 0
    chunks = [cases[i::nsh] for i in range(nsh)]
    from concurrent.futures import ThreadPoolExecutor
    def work(chunk):
        return chunk, _c14_poison_pair(plain['replay'], chunk, tier) if chunk else None
    with ThreadPoolExecutor(max_workers=nsh) as ex:
        results = list(ex.map(work, chunks))
    for chunk, out in results:
        if not out:
            continue
        (da, rca, oa), (db, rcb, ob) = out
        if rca not in (0, 1) or rcb not in (0, 1):
            res.cov.setdefault('inconclusive', []).append('poison run exited %s/%s: %s' % (rca, rcb, (oa + ob)[-300:]))
        by_hash = {}
        for pth in chunk:
            with open(pth) as f:
                by_hash[_fnv(f.read())] = pth
        for h, (dg, sz) in da.items():
            if h in db:
                pairs_checked += 1
                if db[h] != (dg, sz):
                    undefined += 1
                    if undefined <= 3 and h in by_hash:
                        keep = os.path.join(V.WORK, 'c14-keep-%d-%d' % (os.getpid(), undefined))
                        _c14_poison_pair(plain['replay'], [by_hash[h]], tier, keep_dir=keep)
                        fa = os.path.join(keep, 'a', h + '.c3d'); fb = os.path.join(keep, 'b', h + '.c3d')
                        detail = ''
                        if os.path.exists(fa) and os.path.exists(fb):
                            offs, nd, la, lb = _first_diff_offset(fa, fb)
                            detail = 'files saved by two processes with different heap/stack poison differ at %d offsets (first %s; sizes %d/%d): those bytes are not determined by the object' % (nd, offs, la, lb)
                        shutil.rmtree(keep, ignore_errors=True)
                        with open(by_hash[h]) as f:
                            path = V.save_replay('C14', f.read(), detail)
                        res.violations.append((path, detail))
    # thorough: the same saves under valgrind memcheck
    vg_cases = 0; vg_errors = 0
    if tier == 'thorough':
        sub = cases[:4000]
        vchunks = [sub[i::16] for i in range(16)]
        def vwork(chunk):
            if not chunk:
                return chunk, 0, ''
            lst = os.path.join(V.WORK, 'c14-vg-%d-%d.txt' % (os.getpid(), abs(hash(chunk[0])) % 100000))
            with open(lst, 'w') as f:
                f.write('\n'.join(chunk) + '\n')
            cmd = ['valgrind', '-q', '--error-exitcode=9', '--track-origins=no', plain['replay'], '--batch', lst, lst + '.json', 'C14']
            r = subprocess.run(cmd, stdout=subprocess.PIPE, stderr=subprocess.STDOUT, text=True, errors='replace', env=V.base_env({'VERIF_TIER': tier}))
            for q in (lst, lst + '.json'):
                if os.path.exists(q):
                    os.remove(q)
            return chunk, r.returncode, r.stdout
        with ThreadPoolExecutor(max_workers=16) as ex:
            for chunk, rc, out in ex.map(vwork, vchunks):
                vg_cases += len(chunk)
                if rc == 9 or 'uninitialised' in out:
                    vg_errors += 1
                    lines = [l for l in out.splitlines() if 'uninitialised' in l or 'ezc3d' in l][:6]
                    if vg_errors <= 2 and chunk:
                        with open(chunk[0]) as f:
                            path = V.save_replay('C14', f.read(), 'valgrind: ' + ' | '.join(lines))
                        res.violations.append((path, 'valgrind memcheck reports uninitialised bytes while saving: ' + ' | '.join(lines)[:600]))
    shutil.rmtree(cdir, ignore_errors=True)
    for k, v in m['known'].items():
        res.known[k] = res.known.get(k, 0) + v
    cov = {'evaluations': m['evaluations'] + pairs_checked, 'distinct_nontrivial': len(m['nt']), 'rule': m['nt_rule'], 'samples': m['samples'][:4],
           'case_classes': m['tags'], 'discards': m['discards'], 'in_process_cases': m['evaluations'],
           'cross_process_pairs_compared': pairs_checked, 'cross_process_pairs_differing': undefined,
           'valgrind_cases': vg_cases, 'valgrind_chunks_with_errors': vg_errors,
           'engine': 'rapidcheck under asan (purity, double save) + frozen corpus replayed by two plain processes with MALLOC_PERTURB_ 0x11/0x77, tcache off, stack painted before every save'}
    return V.finish('C14', tier, 'exploration', res, cov, t0, floor=100,
                    assumptions=['definedness is established per executed case only (two poison patterns; a byte that is undefined but happens to be equal under both is missed; thorough adds valgrind memcheck)',
                                 'frames complete and content within capacity when saved'])

def c14_replay(path):
    import os
    plain = V.B.build('plain', ('replay',))
    asan = V.B.build('asan', ('replay',))
    rc, out = V.run_replay(asan['replay'], path, 'C14')
    print(out, end='')
    if rc == 1 or V.is_crash(rc, out):
        print('VIOLATION property=C14 replay=%s' % path); return 1
    (da, rca, oa), (db, rcb, ob) = _c14_poison_pair(plain['replay'], [path], 'quick')
    if da and db and list(da.values()) != list(db.values()):
        print('saved bytes differ between two processes with different heap/stack poison')
        print('VIOLATION property=C14 replay=%s' % path); return 1
    print('PASS (cross-process digests equal)')
    return 0
REPLAYERS['C14'] = c14_replay

def _c15_counts(cov):
    # one evaluation = one save under one injected fault (the generated objects are the carriers): report the measured fault counts
    objects = cov['evaluations']; distinct_objects = cov['distinct_nontrivial']
    c = cov.get('counters', {})
    cov['objects'] = objects; cov['distinct_objects'] = distinct_objects
    cov['evaluations'] = c.get('faults_injected', 0) + objects           # + the fault-free saves
    # every (object, fault kind, offset) triple is distinct when the objects are; otherwise count conservatively
    cov['distinct_nontrivial'] = c.get('faults_after_first_byte', 0) if distinct_objects == objects else distinct_objects

@reg('C15')
def c15(tier):
    import os, shutil
    d = os.path.join(V.WORK, 'c15-enum-%d' % os.getpid())
    os.makedirs(d, exist_ok=True)
    objs = {
        'small': 'declp 1 0\nprate 8\nfbuild 0 0 3\nfsub 0 0 0\n',
        'medium': 'limit 6 20\nlimit 7 6\nprate 8\narate 3\nlimit 8 12\nparam 4 1 2 0 40 9 3 0\n',
        'large': 'limit 6 255\nprate 8\nlimit 8 70\n',
        'empty': 'obs\n',
        # POINT:FRAMES edited by hand (fewer / more than the stored frames): the header then disagrees with the data that is written
        'frames-parameter-smaller': 'declp 1 0\ndeclp 2 0\ndeclp 3 0\nprate 8\nlimit 8 40\npframes -10\n',
        'frames-parameter-larger': 'declp 1 0\ndecla 1 0\nprate 8\narate 1\nlimit 8 6\npframes 4\n',
    }
    paths = []
    for n, body in objs.items():
        p = os.path.join(d, n + '.case')
        with open(p, 'w') as f:
            f.write('property: C15\n' + body)
        paths.append(p)
    try:
        os.environ['VERIF_CASE_CPU_S'] = '7200'      # one C15 case performs thousands of complete saves
        return V.generic_pbt('C15', tier, n_quick=48, n_thorough=1600, size_quick=40, size_thorough=70, level='fault_enumeration', floor=20, extra_cases=paths,
                             shards_quick=16, shards_thorough=16,
                             assumptions=['faults: missing directory, path through a file, directory as target, read-only file (effective uid dropped), /dev/full, RLIMIT_FSIZE=k with SIGXFSZ ignored (persistent), RLIMIT_FSIZE=k lifted by the SIGXFSZ handler (one write refused, later ones accepted)',
                                          'objects whose output is <= 6000 bytes (thorough: 20000) get a failure injected at EVERY offset; larger ones every 97th (thorough 7th) byte plus block and stream-buffer boundaries +-1',
                                          'any std::exception counts as "reported"; the class is recorded in counters'],
                             extra_cov={'directed_objects': sorted(objs)}, post_cov=_c15_counts)
    finally:
        shutil.rmtree(d, ignore_errors=True)

# ---- C18: independent objects on different threads (ThreadSanitizer + sequential differential) -----------
def _c18_run_lists(mt_bin, lists, tier):
    import os, subprocess, json
    from concurrent.futures import ThreadPoolExecutor
    def work(lst):
        st = lst + '.json'
        env = V.base_env({'TSAN_OPTIONS': 'halt_on_error=1 exitcode=66 report_signal_unsafe=0', 'VERIF_TIER': tier})
        r = subprocess.run([mt_bin, '--batch', lst, st], stdout=subprocess.PIPE, stderr=subprocess.STDOUT, text=True, errors='replace', env=env)
        stats = None
        if os.path.exists(st):
            with open(st) as f:
                stats = json.load(f)
            os.remove(st)
        return lst, r.returncode, r.stdout, stats
    with ThreadPoolExecutor(max_workers=4) as ex:
        return list(ex.map(work, lists))

def _c18_compose(cases, reps, rnd, outdir):
    import os
    paths = []
    for r in range(reps):
        k = [2, 4, 8, 16][r % 4]
        pick = [cases[rnd.randrange(len(cases))] for _ in range(k)]
        body = 'property: C18\nmt %d %d\n' % (k, rnd.randrange(1, 10**9))
        for pth in pick:
            with open(pth) as f:
                ops = [l for l in f.read().splitlines() if l.strip() and not l.startswith('property:') and not l.startswith('#')]
            body += 'thread\n' + '\n'.join(ops) + '\n'
        p = os.path.join(outdir, 'rep%05d.case' % r)
        with open(p, 'w') as f:
            f.write(body)
        paths.append(p)
    return paths

@reg('C18')
def c18(tier):
    import os, shutil, subprocess, time, glob, random
    t0 = time.time()
    res = V.Result()
    try:
        bins = V.B.build('asan', ('pbt', 'replay'))
        ts = V.B.build('tsan', ('mt',))
    except RuntimeError as e:
        res.broken = 'build failed: ' + str(e)[:2000]
        return V.finish('C18', tier, 'exploration', res, {'evaluations': 0, 'distinct_nontrivial': 0, 'rule': '', 'samples': []}, t0)
    reps = 5000 if tier == 'thorough' else 600
    cdir = os.path.join(V.WORK, 'c18-%d' % os.getpid())
    shutil.rmtree(cdir, ignore_errors=True); os.makedirs(os.path.join(cdir, 'corpus')); os.makedirs(os.path.join(cdir, 'reps'))
    subprocess.run([bins['pbt'], 'C14', '--n', '400' if tier == 'quick' else '3000', '--seed', str(V.seed() * 1000 + 700), '--emit', os.path.join(cdir, 'corpus'), '--work', V.WORK],
                   stdout=subprocess.DEVNULL, stderr=subprocess.DEVNULL, env=V.base_env({'VERIF_TIER': tier}))
    cases = sorted(glob.glob(os.path.join(cdir, 'corpus', '*.case')))
    rnd = random.Random(V.seed())
    paths = _c18_compose(cases, reps, rnd, os.path.join(cdir, 'reps'))
    nl = 8 if tier == 'quick' else 32
    lists = []
    for i in range(nl):
        lst = os.path.join(cdir, 'list%d.txt' % i)
        with open(lst, 'w') as f:
            f.write('\n'.join(paths[i::nl]) + '\n')
        lists.append(lst)
    total = 0; overlapping = 0; threads = 0; samples = []; styles = {}
    for lst, rc, out, stats in _c18_run_lists(ts['mt'], lists, tier):
        if stats:
            for k2, v2 in stats.get('path_styles', {}).items(): styles[k2] = styles.get(k2, 0) + v2
            total += stats['repetitions']; overlapping += stats['overlapping']; threads += stats['threads_run']; samples += stats['samples'][:1]
        running = [l.split(' ', 1)[1] for l in out.splitlines() if l.startswith('RUNNING ')]
        if rc == 66 or 'ThreadSanitizer' in out:
            lines = [l.strip() for l in out.splitlines() if 'WARNING: ThreadSanitizer' in l or l.strip().startswith('#0') or l.strip().startswith('#1')][:6]
            if running:
                with open(running[-1]) as f:
                    pth = V.save_replay('C18', f.read(), 'ThreadSanitizer: ' + ' | '.join(lines))
                res.violations.append((pth, 'ThreadSanitizer report while independent objects were used from different threads: ' + ' | '.join(lines)[:700]))
        elif stats and not stats['ok'] and stats.get('fail_case'):
            with open(stats['fail_case']) as f:
                pth = V.save_replay('C18', f.read(), stats['fail_msg'])
            res.violations.append((pth, stats['fail_msg']))
        elif rc != 0:
            tail = ' '.join(out.splitlines()[-8:])[-600:]
            if running:
                with open(running[-1]) as f:
                    pth = V.save_replay('C18', f.read(), 'process exit %s: %s' % (rc, tail))
                res.violations.append((pth, 'multi-threaded run aborted (exit %s): %s' % (rc, tail)))
            else:
                res.broken = 'mt runner failed: ' + tail
    shutil.rmtree(cdir, ignore_errors=True)
    cov = {'evaluations': total, 'distinct_nontrivial': overlapping,
           'rule': 'one evaluation = one repetition: k in {2,4,8,16} threads, each running its own generated script (own object; files in its own directory, or all threads in ONE directory with names that differ only in the extension, or extension-less names in a directory with a dot in its name: path_styles) behind a barrier with generated yields/spins/sleeps before operations; non-trivial = at least two threads were inside a load or a save at overlapping times (measured, statistic only); distinct by (scripts, schedule seed)',
           'samples': samples[:3] or ['(no overlapping repetition sampled)'], 'threads_run': threads, 'path_styles': styles,
           'engine': 'clang ThreadSanitizer build of /repo + harness (halt_on_error), sequential differential on traces (snapshot digest after every operation, digest of the saved bytes)'}
    return V.finish('C18', tier, 'exploration', res, cov, t0, floor=20,
                    assumptions=['schedules are sampled (perturbed), not enumerated: a race that needs a rare interleaving can be missed',
                                 'print() is not called concurrently (it writes to the process-wide std::cout)'])

def c18_replay(path):
    import os
    ts = V.B.build('tsan', ('mt',))
    lst = os.path.join(V.WORK, 'c18-replay-%d.txt' % os.getpid())
    os.makedirs(V.WORK, exist_ok=True)
    with open(lst, 'w') as f:
        f.write('\n'.join([os.path.abspath(path)] * 5) + '\n')
    out = _c18_run_lists(ts['mt'], [lst], 'quick')
    os.remove(lst)
    for l, rc, o, stats in out:
        print(o[-3000:])
        if rc != 0:
            print('VIOLATION property=C18 replay=%s' % path); return 1
    return 0
REPLAYERS['C18'] = c18_replay

# ---- C19: results do not depend on optimisation level or library kind ------------------------------------
def _c19_traces(traces, cases, workdir):
    import os, subprocess
    from concurrent.futures import ThreadPoolExecutor
    nsplit = 3
    jobs = []
    for name, binp in traces.items():
        for i in range(nsplit):
            part = cases[i::nsplit]
            if part:
                jobs.append((name, i, binp, part))
    def work(j):
        name, i, binp, part = j
        lst = os.path.join(workdir, 'l-%s-%d.txt' % (name, i)); out = os.path.join(workdir, 'o-%s-%d.txt' % (name, i))
        with open(lst, 'w') as f:
            f.write('\n'.join(part) + '\n')
        r = subprocess.run([binp, '--batch', lst, out], stdout=subprocess.PIPE, stderr=subprocess.STDOUT, text=True, errors='replace', env=V.base_env())
        d = {}
        if os.path.exists(out):
            with open(out) as f:
                for line in f:
                    a = line.rstrip('\n').split('\t')
                    if len(a) == 2:
                        d[a[0]] = a[1]
        return name, i, r.returncode, r.stdout[-500:], d, out + '.full'
    with ThreadPoolExecutor(max_workers=16) as ex:
        return list(ex.map(work, jobs))

def _trace_of(fullfile, case_path):
    out = []; on = False
    try:
        with open(fullfile, errors='replace') as f:
            for line in f:
                if line.startswith('== '):
                    on = (line[3:].strip() == case_path)
                    continue
                if on:
                    out.append(line.rstrip('\n'))
    except OSError:
        pass
    return out

@reg('C19')
def c19(tier):
    import os, shutil, subprocess, time, glob
    t0 = time.time()
    res = V.Result()
    try:
        bins = V.B.build('asan', ('pbt', 'replay'))
        traces = V.B.build_cmake_traces()
    except RuntimeError as e:
        res.broken = 'build failed: ' + str(e)[:2000]
        return V.finish('C19', tier, 'exploration', res, {'evaluations': 0, 'distinct_nontrivial': 0, 'rule': '', 'samples': []}, t0)
    wd = os.path.join(V.WORK, 'c19-%d' % os.getpid())
    shutil.rmtree(wd, ignore_errors=True); os.makedirs(wd)
    n = 50000 if tier == 'thorough' else 8000
    procs = []
    for i, (gid, share) in enumerate((('C14', 0.35), ('C02', 0.30), ('C10', 0.10), ('C17', 0.05), ('C13', 0.12), ('C09', 0.08))):
        sd = os.path.join(wd, 'corpus-' + gid); os.makedirs(sd)
        procs.append(subprocess.Popen([bins['pbt'], gid, '--n', str(max(10, int(n * share))), '--seed', str(V.seed() * 1000 + 900 + i), '--emit', sd, '--work', V.WORK],
                                      stdout=subprocess.DEVNULL, stderr=subprocess.DEVNULL, env=V.base_env({'VERIF_TIER': tier})))
    for p in procs:
        p.wait()
    # a fifth of the generated files additionally carry arbitrary bytes in the reserved header words (no layout field lives there)
    import random
    rnd = random.Random(V.seed())
    for cpath in sorted(glob.glob(os.path.join(wd, 'corpus-C02', '*.case')))[::5]:
        with open(cpath) as f:
            lines = f.read().splitlines()
        if 'load' in lines and not any(l.startswith('flayout') and l.split()[1] != '0' for l in lines):
            i = lines.index('load')
            pokes = ['poke %d %d' % (rnd.choice(list(range(24, 294)) + list(range(468, 512))), rnd.randrange(1, 256)) for _ in range(rnd.randrange(1, 6))]
            with open(cpath, 'w') as f:
                f.write('\n'.join(lines[:i] + pokes + lines[i:]) + '\n')
    cases = sorted(glob.glob(os.path.join(wd, 'corpus-*', '*.case'))) + V.corpus_cases('C04') + V.corpus_cases('C19')
    results = _c19_traces(traces, cases, wd)
    per_cfg = {}
    fulls = {}
    for name, i, rc, tail, d, full in results:
        per_cfg.setdefault(name, {}).update(d)
        fulls.setdefault(name, []).append(full)
        if rc != 0:
            res.cov.setdefault('inconclusive', []).append('trace driver of %s exited %s: %s' % (name, rc, tail[-200:]))
    names = sorted(per_cfg)
    compared = 0; nontrivial = 0; samples = []
    for c in cases:
        digs = [per_cfg[nm].get(c) for nm in names]
        if any(x is None for x in digs):
            continue
        compared += 1
        with open(c) as f:
            text = f.read()
        nt = ('\nload' in text) or ('\nreload' in text) or any(('\nprate %d' % k) in text for k in (15, 16, 17, 18))
        if nt:
            nontrivial += 1
            if len(samples) < 3:
                samples.append(text[:1200])
        if len(set(digs)) != 1:
            # find the first differing trace line between the first two configurations that disagree
            ref = digs[0]; other = names[[i for i, x in enumerate(digs) if x != ref][0]]
            ta = []; tb = []
            for ff in fulls[names[0]]:
                ta = ta or _trace_of(ff, c)
            for ff in fulls[other]:
                tb = tb or _trace_of(ff, c)
            diff = ''
            for la, lb in zip(ta, tb):
                if la != lb:
                    diff = '%s: %s | %s: %s' % (names[0], la[:200], other, lb[:200]); break
            if len(res.violations) < 5:
                pth = V.save_replay('C19', text, 'builds disagree: ' + diff)
                res.violations.append((pth, 'the same calls give different results in different builds (%s): %s' % (', '.join('%s=%s' % (nm, dg[:8]) for nm, dg in zip(names, digs)), diff)))
    shutil.rmtree(wd, ignore_errors=True)
    cov = {'evaluations': compared, 'distinct_nontrivial': nontrivial, 'configurations': names,
           'rule': 'one evaluation = one frozen case (API script or generated file + load, from the C01-C04/C10/C17 generators, plus the vendor files) replayed by all 6 CMake builds; compared: outcome class of every call, full snapshot after every call (floats as bit patterns) and the bytes of the finally saved file; non-trivial = case that loads a file or uses a fractional frame rate; distinct by case text',
           'samples': samples or ['(none)'],
           'engine': 'project CMakeLists.txt, CMAKE_BUILD_TYPE in {Debug,RelWithDebInfo,Release} x BUILD_SHARED_LIBS in {ON,OFF}, g++; cross-build differential on traces'}
    return V.finish('C19', tier, 'exploration', res, cov, t0, floor=50,
                    assumptions=['one compiler (g++ 12); the harness objects are identical for all configurations, only the library differs',
                                 'hooks are off in the CMake builds (guard undefined)'])

def c19_replay(path):
    import os, shutil
    traces = V.B.build_cmake_traces()
    wd = os.path.join(V.WORK, 'c19-replay-%d' % os.getpid())
    os.makedirs(wd, exist_ok=True)
    results = _c19_traces(traces, [os.path.abspath(path)], wd)
    digs = {}
    for name, i, rc, tail, d, full in results:
        digs[name] = list(d.values())[0] if d else 'exit%s' % rc
    shutil.rmtree(wd, ignore_errors=True)
    print(digs)
    if len(set(digs.values())) != 1:
        print('VIOLATION property=C19 replay=%s' % path); return 1
    return 0
REPLAYERS['C19'] = c19_replay
