#!/bin/bash
# usage: run_some.sh <tier> <ids...>
tier=$1; shift
for p in "$@"; do
  s=$(date +%s)
  out=$(./check run $p --tier $tier 2>&1); rc=$?
  echo "$p rc=$rc $(( $(date +%s) - s ))s $(echo "$out" | grep -E '^(OK|VIOLATION|BROKEN)' | head -2 | tr '\n' ' ' | cut -c1-200)"
done
