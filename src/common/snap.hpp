// Canonical snapshot of a C3D object's observable content (plain value types, no ezc3d headers).
// The same types are used by the reference codec (expected content) and by the models.
#pragma once
#include <algorithm>
#include <cstdint>
#include <sstream>
#include <string>
#include <vector>
#include "util.hpp"

namespace vf {

struct SParam {
    std::string name, desc;
    bool locked = false;
    int type = 0;                       // -1 char, 1 byte, 2 int, 4 float, 10000 none
    std::vector<size_t> dims;
    std::vector<int> ints;              // byte / int
    std::vector<uint32_t> floats;       // bit patterns
    std::vector<std::string> strs;
};
struct SGroup {
    std::string name, desc;
    bool locked = false;
    std::vector<SParam> params;
};
struct SPoint { std::string name; uint32_t v[4] = {0, 0, 0, 0}; };
struct SChan { std::string name; uint32_t v = 0; };
struct SFrame {
    std::vector<SPoint> pts;
    std::vector<std::vector<SChan>> subs;
};
struct SHeader {
    size_t nb3dPoints = 0, nbAnalogsMeasurement = 0, nbAnalogs = 0, firstFrame = 0, lastFrame = 0, nbFrames = 0;
    size_t nbMaxInterpGap = 0; int scaleFactor = 0; size_t dataStart = 0, nbAnalogByFrame = 0; uint32_t frameRate = 0;
    size_t keyLabelPresent = 0, firstBlockKeyLabel = 0, fourCharPresent = 0, nbEvents = 0;
    std::vector<uint32_t> eventsTime; std::vector<size_t> eventsDisplay; std::vector<std::string> eventsLabel;
    // layout / reserved
    size_t zeros = 0, parametersAddress = 0, checksum = 0;
    int empty1 = 0, empty2 = 0, empty3 = 0, empty4 = 0;
};
struct Snap {
    SHeader h;
    size_t parametersStart = 0, pchecksum = 0, nbParamBlock = 0, processorType = 0;
    std::vector<SGroup> groups;
    std::vector<SFrame> frames;
};

// ---- text form (stable) ---------------------------------------------------------------------
inline std::string hex32(uint32_t v) { char b[16]; snprintf(b, sizeof b, "%08x", v); return b; }
inline std::string q(const std::string &s) {
    std::string o = "\"";
    for (unsigned char c : s) {
        if (c >= 0x20 && c < 0x7F && c != '"' && c != '\\') o.push_back(static_cast<char>(c));
        else { char b[8]; snprintf(b, sizeof b, "\\x%02x", c); o += b; }
    }
    return o + "\"";
}
inline std::string paramText(const SParam &p) {
    std::ostringstream os;
    os << q(p.name) << " lock=" << p.locked << " type=" << p.type << " dims=[";
    for (size_t i = 0; i < p.dims.size(); ++i) os << (i ? "," : "") << p.dims[i];
    os << "] desc=" << q(p.desc) << " vals=";
    if (p.type == -1) for (auto &s : p.strs) os << q(s) << ",";
    else if (p.type == 4) for (auto v : p.floats) os << hex32(v) << ",";
    else for (auto v : p.ints) os << v << ",";
    return os.str();
}
inline std::string headerText(const SHeader &h, bool layout) {
    std::ostringstream os;
    os << "pts=" << h.nb3dPoints << " meas=" << h.nbAnalogsMeasurement << " an=" << h.nbAnalogs << " first=" << h.firstFrame
       << " last=" << h.lastFrame << " frames=" << h.nbFrames << " gap=" << h.nbMaxInterpGap << " scale=" << h.scaleFactor
       << " sub=" << h.nbAnalogByFrame << " rate=" << hex32(h.frameRate) << " key=" << h.keyLabelPresent << "/"
       << h.firstBlockKeyLabel << "/" << h.fourCharPresent << " nev=" << h.nbEvents << " evt=";
    for (auto v : h.eventsTime) os << hex32(v) << ",";
    os << " evd=";
    for (auto v : h.eventsDisplay) os << v << ",";
    os << " evl=";
    for (auto &s : h.eventsLabel) os << q(s) << ",";
    if (layout)
        os << " zeros=" << h.zeros << " paddr=" << h.parametersAddress << " chk=" << h.checksum << " dstart=" << h.dataStart
           << " e=" << h.empty1 << "/" << h.empty2 << "/" << h.empty3 << "/" << h.empty4;
    return os.str();
}
inline std::string frameText(const SFrame &f) {
    std::ostringstream os;
    os << "P" << f.pts.size() << ":";
    for (auto &p : f.pts) os << q(p.name) << "=" << hex32(p.v[0]) << "/" << hex32(p.v[1]) << "/" << hex32(p.v[2]) << "/" << hex32(p.v[3]) << ";";
    os << " S" << f.subs.size() << ":";
    for (auto &s : f.subs) { os << "["; for (auto &c : s) os << q(c.name) << "=" << hex32(c.v) << ";"; os << "]"; }
    return os.str();
}
inline std::string snapText(const Snap &s, bool layout = true) {
    std::ostringstream os;
    os << "H " << headerText(s.h, layout) << "\n";
    if (layout) os << "PS " << s.parametersStart << " " << s.pchecksum << " " << s.nbParamBlock << " " << s.processorType << "\n";
    for (size_t g = 0; g < s.groups.size(); ++g) {
        os << "G" << g << " " << q(s.groups[g].name) << " lock=" << s.groups[g].locked << " desc=" << q(s.groups[g].desc) << "\n";
        for (size_t p = 0; p < s.groups[g].params.size(); ++p) os << "  P" << p << " " << paramText(s.groups[g].params[p]) << "\n";
    }
    for (size_t f = 0; f < s.frames.size(); ++f) os << "F" << f << " " << frameText(s.frames[f]) << "\n";
    return os.str();
}

// first differing line of two texts ("" if equal)
inline std::string firstDiff(const std::string &a, const std::string &b) {
    if (a == b) return "";
    std::istringstream ia(a), ib(b);
    std::string la, lb; size_t n = 0;
    while (true) {
        bool ha = bool(std::getline(ia, la)), hb = bool(std::getline(ib, lb));
        ++n;
        if (!ha && !hb) return "texts differ (unknown place)";
        if (!ha) return "line " + std::to_string(n) + ": <missing> vs " + lb.substr(0, 300);
        if (!hb) return "line " + std::to_string(n) + ": " + la.substr(0, 300) + " vs <missing>";
        if (la != lb) {
            // show the region around the first differing character
            size_t k = 0; while (k < la.size() && k < lb.size() && la[k] == lb[k]) ++k;
            size_t from = k > 60 ? k - 60 : 0;
            return "line " + std::to_string(n) + " col " + std::to_string(k) + ": ..." + la.substr(from, 200) + " vs ..." + lb.substr(from, 200);
        }
    }
}

// ---- content normalisation: what must survive save/load -------------------------------------
// names upper-cased (groups, parameters), strings right-trimmed, POINT:DATA_START value ignored,
// layout fields ignored. Header fields compared: counts, first/last, rate, and (optionally) the rest.
struct ContentOpts {
    bool headerExtras = true;   // gap, key label words, events
    bool groupOrder = true;     // compare groups positionally (false: sorted by name, unnamed empty groups dropped)
    bool paramOrder = true;
    bool channelNames = true;
    bool pointNames = true;
    bool trimA = true, trimB = true;   // right-trim the strings of the first / second snapshot (a loaded object must ALREADY hold trimmed strings: pass false for it)
};
inline Snap normalised(const Snap &in, const ContentOpts &o, bool trim = true) {
    Snap s = in;
    s.parametersStart = s.pchecksum = s.nbParamBlock = s.processorType = 0;
    s.h.zeros = s.h.parametersAddress = s.h.checksum = s.h.dataStart = 0;
    s.h.empty1 = s.h.empty2 = s.h.empty3 = s.h.empty4 = 0;
    if (!o.headerExtras) {
        s.h.nbMaxInterpGap = 0; s.h.keyLabelPresent = s.h.firstBlockKeyLabel = s.h.fourCharPresent = s.h.nbEvents = 0;
        s.h.eventsTime.clear(); s.h.eventsDisplay.clear(); s.h.eventsLabel.clear(); s.h.scaleFactor = 0;
    }
    if (s.h.nbAnalogs == 0) { s.h.nbAnalogByFrame = 0; s.h.nbAnalogsMeasurement = 0; }   // sub-frame count is unobservable without channels
    // event labels are fixed 4-character fields: never trimmed by the library, compared as they are
    for (auto &g : s.groups) {
        g.name = upper(g.name);
        for (auto &p : g.params) {
            p.name = upper(p.name);
            if (trim) for (auto &t : p.strs) t = rtrim(t);
            if (p.name == "DATA_START" && p.type != -1) { p.ints.assign(p.ints.size(), 0); p.floats.assign(p.floats.size(), 0); }
        }
    }
    if (!o.paramOrder)
        for (auto &g : s.groups)
            std::stable_sort(g.params.begin(), g.params.end(), [](const SParam &a, const SParam &b) { return a.name < b.name; });
    if (!o.groupOrder) {
        std::vector<SGroup> keep;
        for (auto &g : s.groups) if (!(g.name.empty() && g.params.empty())) keep.push_back(g);
        std::stable_sort(keep.begin(), keep.end(), [](const SGroup &a, const SGroup &b) { return a.name < b.name; });
        s.groups = keep;
    }
    for (auto &f : s.frames) {        // sub-frames without channels carry no sample
        bool any = false; for (auto &sf : f.subs) if (!sf.empty()) any = true;
        if (!any) f.subs.clear();
    }
    if (!o.channelNames) for (auto &f : s.frames) for (auto &sf : f.subs) for (auto &c : sf) c.name.clear();
    if (!o.pointNames) for (auto &f : s.frames) for (auto &p : f.pts) p.name.clear();
    return s;
}
inline std::string diffContent(const Snap &a, const Snap &b, const ContentOpts &o = ContentOpts()) {
    return firstDiff(snapText(normalised(a, o, o.trimA), false), snapText(normalised(b, o, o.trimB), false));
}
inline std::string diffIdentical(const Snap &a, const Snap &b) { return firstDiff(snapText(a, true), snapText(b, true)); }

} // namespace vf
