#include "props.hpp"
#include "interp.hpp"
#include <cstdlib>
#include <sstream>
#include <csignal>
#include <sys/time.h>
#include <sys/resource.h>
#include <unistd.h>

namespace vf {
static thread_local HookState g_hook;
HookState &hook() { return g_hook; }
void hookArm(unsigned long long fileSize) {
    g_hook = HookState();
    g_hook.on = true;
    g_hook.readBudget = 64ULL * fileSize + (1ULL << 20);          // read calls
    g_hook.declLimitBytes = 64ULL * fileSize + (1ULL << 20);      // bytes of frame data the header/parameters declare
}
void hookDisarm() { g_hook.on = false; }

RunCtx makeCtx(const std::string &tag) {
    RunCtx c;
    c.scratch = makeScratchDir(tag);
    if (const char *t = getenv("VERIF_TIER")) c.tier = std::string(t) == "thorough" ? 1 : 0;
    if (const char *f = getenv("VERIF_OPEN_FINDINGS")) {
        std::istringstream is(f); std::string w;
        while (is >> w) {
            size_t b = w.find('!');
            std::string id = w.substr(0, b);
            c.openFindings.insert(id);
            while (b != std::string::npos) { size_t e = w.find('!', b + 1); c.notExcludedFor[id].insert(w.substr(b + 1, e == std::string::npos ? std::string::npos : e - b - 1)); b = e; }
        }
    }
    return c;
}
// per-case CPU guard: ITIMER_PROF fires after `limit` seconds of process CPU time (user + kernel). Kernel time can be inflated by memory
// pressure on a loaded machine (page reclaim is charged to the faulting process), so the verdict is taken on USER time only: the case is
// ended when it has used `limit` seconds of user time since it began; otherwise the timer is re-armed
static long g_caseLimit = -1;
static double g_caseUserStart = 0;
static double userSeconds() { struct rusage ru; getrusage(RUSAGE_SELF, &ru); return static_cast<double>(ru.ru_utime.tv_sec) + static_cast<double>(ru.ru_utime.tv_usec) / 1e6; }
static void armCaseTimer(long seconds) {
    struct itimerval it; it.it_interval.tv_sec = 0; it.it_interval.tv_usec = 0; it.it_value.tv_sec = seconds; it.it_value.tv_usec = 0;
    setitimer(ITIMER_PROF, &it, nullptr);
}
static void caseCpuHandler(int) {
    const double used = userSeconds() - g_caseUserStart;
    if (used + 1.0 < static_cast<double>(g_caseLimit)) { long rest = g_caseLimit - static_cast<long>(used); armCaseTimer(rest < 5 ? 5 : rest); return; }
    const char m[] = "\nCPU-BUDGET-EXCEEDED: one case used more CPU time than VERIF_CASE_CPU_S allows\n"; ssize_t r = write(2, m, sizeof m - 1); (void)r; _exit(96);     // 96 = budget of the harness exhausted (inconclusive); 97 = C16's own per-load guard
}
void caseCpuGuard(bool on) {
    if (g_caseLimit < 0) { const char *e = getenv("VERIF_CASE_CPU_S"); g_caseLimit = e ? atol(e) : 180; signal(SIGPROF, caseCpuHandler); }
    if (g_caseLimit == 0) return;
    if (on) g_caseUserStart = userSeconds();
    armCaseTimer(on ? g_caseLimit : 0);
}
} // namespace vf

extern "C" void ezc3d_verif_on_read(size_t) {
    vf::HookState &h = vf::hook();
    if (!h.on) return;
    ++h.reads;
    if (h.readBudget && h.reads > h.readBudget) { h.budgetExceeded = true; throw "budget: read work exceeds 64 x file size + 2^20 calls"; }
}
extern "C" void ezc3d_verif_on_data_decl(size_t nFrames, size_t nPoints, size_t nAnalogs, size_t nSub) {
    vf::HookState &h = vf::hook();
    if (!h.on) return;
    // a frame count beyond 2^32 is not "more data than the file holds" (KF-D17's class: counts a file can really declare, up to 65536
    // frames): it comes from a sign-extended 16-bit word and the library is expected to refuse it at once, which stays under test
    if (nFrames > (1ULL << 32)) return;
    // saturating product
    long double d = static_cast<long double>(nFrames) * (4.0L * nPoints + static_cast<long double>(nAnalogs) * nSub) * 4.0L
                    + static_cast<long double>(nFrames) * 64.0L + static_cast<long double>(nFrames) * static_cast<long double>(nSub) * 32.0L;
    h.declared = d > 1e18L ? static_cast<unsigned long long>(1e18L) : static_cast<unsigned long long>(d);
    if (h.declLimitBytes && h.declared > h.declLimitBytes) { h.declExceeded = true; throw "budget-decl: declared data far beyond the file size"; }
}
