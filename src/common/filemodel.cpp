#include "filemodel.hpp"
#include <algorithm>
#include <cstring>
#include <cstdlib>

namespace vf {

// (names whose index ends in 7 carry one or two trailing blanks: other software pads names, and the reader keeps them as they are)
std::string fileGroupName(long long idx) { std::string n = upper(poolName(5000 + idx, 20, false)); if (idx % 10 == 7) n += (idx % 20 == 7 ? " " : "  "); return n; }
std::string fileParamName(long long idx) { std::string n = upper(poolName(6000 + idx, 20, false)); if (idx % 10 == 7) n += (idx % 20 == 7 ? " " : "  "); return n; }
static const float kRates[] = {1.f, 2.f, 10.f, 25.f, 30.f, 50.f, 60.f, 100.f, 120.f, 125.f, 200.f, 240.f, 250.f, 500.f, 1000.f, 12.5f, 62.5f, 1.5f};
float fileRate(long long idx) { size_t n = sizeof(kRates) / sizeof(kRates[0]); return kRates[static_cast<size_t>(idx < 0 ? -idx : idx) % n]; }

static void rawInt(std::vector<uint8_t> &raw, int v) { raw.push_back(v & 0xFF); raw.push_back((v >> 8) & 0xFF); }
static void rawFloat(std::vector<uint8_t> &raw, uint32_t b) { for (int i = 0; i < 4; ++i) raw.push_back((b >> (8 * i)) & 0xFF); }

static ref::Rec pInt(int gid, const std::string &name, int v, bool lock = false) {
    ref::Rec r; r.id = gid; r.name = name; r.type = 2; r.locked = lock; rawInt(r.raw, v); return r;
}
static ref::Rec pFloat(int gid, const std::string &name, uint32_t bits, bool lock = false) {
    ref::Rec r; r.id = gid; r.name = name; r.type = 4; r.locked = lock; rawFloat(r.raw, bits); return r;
}
static ref::Rec pStrings(int gid, const std::string &name, const std::vector<std::string> &v, size_t minLen = 0) {
    ref::Rec r; r.id = gid; r.name = name; r.type = -1;
    size_t len = minLen; for (auto &s : v) len = std::max(len, s.size());
    r.dims = {static_cast<int>(len), static_cast<int>(v.size())};
    for (auto &s : v) { for (char c : s) r.raw.push_back(static_cast<uint8_t>(c)); for (size_t i = s.size(); i < len; ++i) r.raw.push_back(' '); }
    return r;
}
static ref::Rec pIntArr(int gid, const std::string &name, const std::vector<int> &v) {
    ref::Rec r; r.id = gid; r.name = name; r.type = 2; r.dims = {static_cast<int>(v.size())}; for (int x : v) rawInt(r.raw, x); return r;
}
static ref::Rec pFloatArr(int gid, const std::string &name, const std::vector<uint32_t> &v) {
    ref::Rec r; r.id = gid; r.name = name; r.type = 4; r.dims = {static_cast<int>(v.size())}; for (uint32_t x : v) rawFloat(r.raw, x); return r;
}

static const Op *findOp(const std::vector<Op> &ops, const char *code) {
    for (const Op &o : ops) if (o.code == code) return &o;
    return nullptr;
}
static long long clampll(long long v, long long lo, long long hi) { return v < lo ? lo : (v > hi ? hi : v); }
static long long absmod(long long v, long long m) { if (v < 0) v = -v; return m > 0 ? v % m : 0; }

ref::File buildFile(const std::vector<Op> &ops, FileInfo *info) {
    ref::File f;
    FileInfo dummy; FileInfo &I = info ? *info : dummy;
    // ---- layout ----
    bool emptyAnalog = false;
    if (const Op *o = findOp(ops, "flayout")) {
        f.zeros = static_cast<size_t>(clampll(o->arg(0), 0, 4096));
        f.paramBlock = static_cast<int>(clampll(o->arg(1, 2), 2, 6));
        f.zeroPrologue = o->arg(2) % 2 != 0;
        f.termStyle = o->arg(3) % 2 != 0 ? 1 : 0;
        f.fillerByte = static_cast<uint8_t>(absmod(o->arg(4), 256));
        emptyAnalog = o->arg(5) % 2 != 0;
        if (f.zeros) I.tags.insert(f.zeros % 512 ? "zeros-unaligned" : "zeros");
        if (f.paramBlock != 2) I.tags.insert("param-block>2");
        if (f.zeroPrologue) I.tags.insert("zero-prologue");
        if (f.termStyle) I.tags.insert("term-offset-to-zero");
    }
    // ---- shape ----
    size_t nP = 0, nC = 0, nSub = 0, nF = 0; unsigned first = 1; long long rateIdx = 7, pdelta = 0, adelta = 0, variant = 0; uint64_t vseed = 1;
    if (const Op *o = findOp(ops, "fshape")) {
        nP = static_cast<size_t>(clampll(o->arg(0), 0, 255));
        nC = static_cast<size_t>(clampll(o->arg(1), 0, 255));
        nSub = static_cast<size_t>(clampll(o->arg(2, 1), 0, 64));
        nF = static_cast<size_t>(clampll(o->arg(3), 0, 2000));
        first = static_cast<unsigned>(clampll(o->arg(4, 1), 1, 65535));
        rateIdx = o->arg(5); pdelta = clampll(o->arg(6), -255, 255); adelta = clampll(o->arg(7), -255, 255);
        vseed = static_cast<uint64_t>(o->arg(8));
        variant = o->arg(9);
    }
    if (emptyAnalog) { nC = 0; }
    if (nC > 0 && nSub == 0) nSub = 1;
    if (nC * nSub > 65535) nSub = 65535 / nC;
    if (nP == 0 && nC == 0) nF = 0;
    else if (nF == 0 && variant != 2) nF = 1;
    if (variant == 2 && (nP || nC)) { nF = 0; first = 1; I.tags.insert("template-file-no-frames"); }     // declared columns, no frame yet (what ezc3d itself saves for such an object): first 1, last 0
    if (static_cast<size_t>(first) + nF - 1 > 65535) first = static_cast<unsigned>(65535 - (nF ? nF - 1 : 0));
    if (first != 1) I.tags.insert("first-frame>1");
    I.nPoints = nP; I.nChannels = nC; I.nSub = nSub; I.nFrames = nF;
    float prateTmp = fileRate(rateIdx);
    if (const Op *o = findOp(ops, "frawrate")) {       // arbitrary finite positive frame rate (bit pattern); needs no analog data so that no rate ratio is involved
        uint32_t bits = static_cast<uint32_t>(absmod(o->arg(0), 1LL << 32));
        float v = bitsToFloat(bits);
        if (v == v && v > 0.f && v < 1.0e5f && nC == 0) { prateTmp = v; nSub = 1; I.tags.insert("raw-frame-rate"); }
    }
    const float prate = prateTmp;
    const float arate = prate * static_cast<float>(nSub);
    f.h.nPoints = static_cast<unsigned>(nP); f.h.nAnalogMeas = static_cast<unsigned>(nC * nSub);
    f.h.first = first; f.h.last = nF ? static_cast<unsigned>(first + nF - 1) : ((variant == 2 && (nP || nC)) ? 0 : first);
    f.h.nSub = static_cast<unsigned>(nSub); f.h.rate = floatToBits(prate);
    f.h.maxGap = 10;
    if (findOp(ops, "fzerosub") && nC == 0 && nF > 0) {   // vendor style: no channel recorded, so the header's samples-per-frame word is 0 although the rates give a ratio
        f.h.nSub = 0; I.tags.insert("header-subframes-0-without-channels");
    }
    if (const Op *o = findOp(ops, "frawscale")) {      // arbitrary bit pattern in the scale-factor words; without frames nothing is scaled, so every pattern is well-formed
        if (nF == 0) { f.h.scale = static_cast<uint32_t>(absmod(o->arg(0), 1LL << 32)); I.tags.insert("raw-scale-factor"); }
    }
    // ---- header extras ----
    if (const Op *o = findOp(ops, "fhdr")) {
        f.h.maxGap = static_cast<unsigned>(absmod(o->arg(0), 65536));
        f.h.keyLabelPresent = static_cast<unsigned>(absmod(o->arg(1), 65536));
        f.h.firstBlockKeyLabel = static_cast<unsigned>(absmod(o->arg(2), 65536));
        f.h.fourChar = static_cast<unsigned>(absmod(o->arg(3), 65536));
        unsigned nev = static_cast<unsigned>(absmod(o->arg(4), 19));
        f.h.nEvents = nev;
        Rng r(static_cast<uint64_t>(o->arg(5)));
        for (unsigned i = 0; i < nev; ++i) {
            f.h.evTime[i] = genFloatBits(r);
            f.h.evDisp[i] = static_cast<uint8_t>(r.below(2));
            size_t len = 1 + r.below(4);
            const char padc = r.below(2) ? ' ' : '\0';      // both paddings occur in real files
            for (size_t k = 0; k < 4; ++k) f.h.evLabel[i][k] = k < len ? static_cast<char>('A' + r.below(26)) : padc;
        }
        if (nev) I.tags.insert("events");
        if (o->a.size() > 6 && o->arg(6) != 0) {    // raw event display words / times beyond nEvents
            Rng r2(static_cast<uint64_t>(o->arg(6)));
            for (int i = 0; i < 18; ++i) { f.h.evDisp[i] = static_cast<uint8_t>(r2.below(256)); }
            I.tags.insert("event-display-raw");
            // stale event times in slots at or beyond the declared number of events (other software leaves them there): still 18 floats of the header
            if (o->arg(6) % 2 != 0) { for (unsigned i = nev; i < 18; ++i) f.h.evTime[i] = genFloatBits(r2); if (nev < 18) I.tags.insert("event-times-beyond-count"); }
        }
    }
    // ---- group ids ----
    int pointId = 1, analogId = 2, forceId = 3;
    if (const Op *o = findOp(ops, "fids")) {
        pointId = static_cast<int>(1 + absmod(o->arg(0), 127));
        analogId = static_cast<int>(1 + absmod(o->arg(1), 127));
        forceId = static_cast<int>(absmod(o->arg(2), 128));
        if (analogId == pointId) analogId = pointId % 127 + 1;
        while (forceId != 0 && (forceId == pointId || forceId == analogId)) forceId = forceId % 127 + 1;
        if (!(pointId == 1 && analogId == 2)) I.tags.insert("group-ids-nonstandard");
    }
    std::vector<int> usedIds = {pointId, analogId}; if (forceId) usedIds.push_back(forceId);
    std::vector<ref::Rec> groups, params;
    auto grp = [&](int id, const std::string &name, const std::string &desc, bool lock) {
        ref::Rec g; g.isGroup = true; g.id = id; g.name = name; g.desc = desc; g.locked = lock; groups.push_back(g);
    };
    Rng vr(vseed);
    grp(pointId, "POINT", "", false);
    grp(analogId, "ANALOG", "", false);
    if (forceId) grp(forceId, "FORCE_PLATFORM", "", false);
    // ---- labels ----
    size_t nPL = static_cast<size_t>(clampll(static_cast<long long>(nP) + pdelta, 0, 255));
    size_t nAL = static_cast<size_t>(clampll(static_cast<long long>(nC) + adelta, 0, 255));
    if (nPL != nP) I.tags.insert(nPL < nP ? "labels-fewer" : "labels-more");
    if (nAL != nC) I.tags.insert(nAL < nC ? "alabels-fewer" : "alabels-more");
    std::vector<std::string> pl, al, pdesc, punits, adesc, aunits;
    for (size_t i = 0; i < nPL; ++i) { pl.push_back(poolName(static_cast<long long>(100 + i * 3 + vseed % 5), 12)); pdesc.push_back(i % 3 ? "" : "d" + std::to_string(i)); punits.push_back("mm"); }
    for (size_t i = 0; i < nAL; ++i) { al.push_back(poolName(static_cast<long long>(700 + i * 3 + vseed % 7), 12)); adesc.push_back(""); aunits.push_back("V"); }
    params.push_back(pInt(pointId, "USED", static_cast<int>(nP), true));
    params.push_back(pFloat(pointId, "SCALE", 0xBF800000u, true));
    params.push_back(pFloat(pointId, "RATE", floatToBits(prate), true));
    if (variant != 1) params.push_back(pInt(pointId, "DATA_START", 0, true));            // patched below
    else I.tags.insert("no-POINT:DATA_START");
    params.push_back(pInt(pointId, "FRAMES", static_cast<int>(nF), true));
    params.push_back(pStrings(pointId, "LABELS", pl, vseed % 3 == 0 ? 16 : 0));
    params.push_back(pStrings(pointId, "DESCRIPTIONS", pdesc));
    params.push_back(pStrings(pointId, "UNITS", punits));
    if (!emptyAnalog) {
        params.push_back(pInt(analogId, "USED", static_cast<int>(nC), true));
        params.push_back(pStrings(analogId, "LABELS", al));
        params.push_back(pStrings(analogId, "DESCRIPTIONS", adesc));
        params.push_back(pInt(analogId, "GEN_SCALE", 1));
        std::vector<uint32_t> sc(nAL, 0x3F800000u); std::vector<int> of(nAL, 0);     // vendor files carry one gain / offset / unit per LABEL, which may be more or fewer than the channels in use
        params.push_back(pFloatArr(analogId, "SCALE", sc));
        params.push_back(pIntArr(analogId, "OFFSET", of));
        params.push_back(pStrings(analogId, "UNITS", aunits));
        params.push_back(pFloat(analogId, "RATE", floatToBits(arate), true));
    } else I.tags.insert("empty-analog-group");
    if (forceId) params.push_back(pInt(forceId, "USED", 0));
    // ---- custom groups and parameters ----
    std::vector<int> groupIds = {pointId};
    if (!emptyAnalog) groupIds.push_back(analogId);      // an empty ANALOG group must stay empty
    for (const Op &o : ops) {
        if (o.code != "fgroup") continue;
        int id = static_cast<int>(1 + absmod(o.arg(0), 127));
        int tries = 0;
        while (std::find(usedIds.begin(), usedIds.end(), id) != usedIds.end() && tries++ < 130) id = id % 127 + 1;
        if (tries >= 130) continue;
        usedIds.push_back(id); groupIds.push_back(id);
        Rng r(static_cast<uint64_t>(o.arg(1)) * 31 + 7);
        size_t dl = static_cast<size_t>(clampll(o.arg(2), 0, 255));
        grp(id, fileGroupName(o.arg(1)), genText(r, dl), o.arg(3) % 2 != 0);
        if (dl >= 128) I.tags.insert("desc>=128");
        if (id > static_cast<int>(usedIds.size()) + 1) I.tags.insert("sparse-group-id");
    }
    std::set<std::string> customNames;
    size_t customBytes = 0;          // the whole parameter section must stay well below 255 blocks
    for (const Op &o : ops) {
        if (o.code != "fparam") continue;
        ref::Rec p;
        p.id = groupIds[static_cast<size_t>(absmod(o.arg(0), static_cast<long long>(groupIds.size())))];
        p.name = fileParamName(o.arg(1));
        std::string key = std::to_string(p.id) + ":" + p.name;
        if (customNames.count(key)) continue;      // one record per (group, name)
        customNames.insert(key);
        int t = static_cast<int>(absmod(o.arg(2), 4));
        p.type = t == 0 ? -1 : (t == 1 ? 1 : (t == 2 ? 2 : 4));
        size_t nd = static_cast<size_t>(clampll(o.arg(3), 0, 7));
        size_t prod = 1, prodNZ = 1;
        for (size_t i = 0; i < nd; ++i) {
            int d = static_cast<int>(clampll(o.arg(4 + i), 0, 255));
            // keep a record inside what a 16-bit next-offset can address, and the number of (possibly zero-length) values bounded
            if (prodNZ * static_cast<size_t>(d ? d : 1) * static_cast<size_t>(p.type < 0 ? 1 : p.type) > 62000) d = 1;
            p.dims.push_back(d); prod *= static_cast<size_t>(d); prodNZ *= static_cast<size_t>(d ? d : 1);
        }
        Rng r(static_cast<uint64_t>(o.arg(11)));
        size_t n = ref::rawSize(p);
        if (customBytes + n > 100000) { customNames.erase(key); continue; }
        customBytes += n + 300;
        if (p.type == -1) {
            size_t len = nd >= 1 ? static_cast<size_t>(p.dims[0]) : 1;
            size_t cnt = len ? n / len : 0;
            for (size_t k = 0; k < cnt; ++k) {
                std::string s = genText(r, r.below(len + 1));
                if (nd == 0 && s.empty()) s = "x";
                for (char c : s) p.raw.push_back(static_cast<uint8_t>(c));
                for (size_t i = s.size(); i < len; ++i) p.raw.push_back(' ');
            }
            if (nd == 0) I.tags.insert("char-0dim");
            if (nd == 1) I.tags.insert("char-1dim");
        } else if (p.type == 1) { for (size_t i = 0; i < n; ++i) p.raw.push_back(static_cast<uint8_t>(r.below(256))); I.tags.insert("byte-param"); }
        else if (p.type == 2) { for (size_t i = 0; i < n / 2; ++i) rawInt(p.raw, static_cast<int>(r.below(65536))); }
        else { for (size_t i = 0; i < n / 4; ++i) rawFloat(p.raw, genFloatBits(r)); }
        if (nd >= 3) I.tags.insert("dims>=3");
        if (nd >= 1 && prod == 0) I.tags.insert("zero-size-param");
        size_t dl = static_cast<size_t>(clampll(o.arg(12), 0, 255));
        Rng rd(static_cast<uint64_t>(o.arg(11)) + 99);
        p.desc = genText(rd, dl);
        if (dl >= 128) I.tags.insert("desc>=128");
        p.locked = o.arg(13) % 2 != 0;
        params.push_back(p);
    }
    // ---- exhaustive enumerations (C12) ----
    auto floatPattern = [](unsigned long long i) -> uint32_t {
        // sign x 256 exponents x 7 mantissa classes
        uint32_t sign = static_cast<uint32_t>(i & 1), ex = static_cast<uint32_t>((i >> 1) & 0xFF);
        unsigned m = static_cast<unsigned>((i >> 9) % 7);
        static const uint32_t mant[4] = {0u, 1u, 0x400000u, 0x7FFFFFu};
        uint32_t mm;
        if (m < 4) mm = mant[m]; else { Rng r(i * 2654435761ULL + m); mm = static_cast<uint32_t>(r.next()) & 0x7FFFFFu; }
        return (sign << 31) | (ex << 23) | mm;
    };
    for (const Op &o : ops) {
        if (o.code == "fenumbyte") {
            ref::Rec p; p.id = pointId; p.name = "ENUMBYTE"; p.type = 1; p.dims = {16, 16};
            for (int v = 0; v < 256; ++v) p.raw.push_back(static_cast<uint8_t>(v));
            params.push_back(p); I.tags.insert("enum-byte-all-256");
        } else if (o.code == "fenumint") {
            long long blk = absmod(o.arg(0), 4);
            ref::Rec p; p.id = pointId; p.name = "ENUMINT" + std::to_string(blk); p.type = 2; p.dims = {128, 128};
            for (int v = 0; v < 16384; ++v) rawInt(p.raw, static_cast<int>(blk * 16384 + v));
            params.push_back(p); I.tags.insert("enum-int-block-" + std::to_string(blk));
        } else if (o.code == "fenumflt") {
            unsigned long long start = static_cast<unsigned long long>(absmod(o.arg(0), 1LL << 40));
            ref::Rec p; p.id = pointId; p.name = "ENUMFLT"; p.type = 4; p.dims = {32, 112};
            for (unsigned long long v = 0; v < 3584; ++v) rawFloat(p.raw, floatPattern(start + v));
            params.push_back(p); I.tags.insert("enum-float-param");
        } else if (o.code == "fevtenum") {
            unsigned long long start = static_cast<unsigned long long>(absmod(o.arg(0), 1LL << 40));
            f.h.nEvents = 18;
            for (unsigned i = 0; i < 18; ++i) { f.h.evTime[i] = floatPattern(start + i); for (int k = 0; k < 4; ++k) f.h.evLabel[i][k] = static_cast<char>('A' + (i + k) % 26); }
            I.tags.insert("enum-float-events");
        }
    }
    // ---- record order ----
    long long orderSeed = 0, orderMode = 0;
    if (const Op *o = findOp(ops, "forder")) { orderSeed = o->arg(0); orderMode = absmod(o->arg(1), 3); }
    if (orderMode == 0) {            // each group followed by nothing; all groups first, then parameters (Vicon style)
        f.recs = groups; f.recs.insert(f.recs.end(), params.begin(), params.end());
    } else {
        std::vector<ref::Rec> all;
        if (orderMode == 2) { all = params; all.insert(all.end(), groups.begin(), groups.end()); I.tags.insert("params-before-groups"); }
        else { all = groups; all.insert(all.end(), params.begin(), params.end()); }
        Rng r(static_cast<uint64_t>(orderSeed));
        if (orderMode == 1) { for (size_t i = all.size(); i > 1; --i) std::swap(all[i - 1], all[r.below(i)]); I.tags.insert("records-shuffled"); }
        f.recs = all;
    }
    // ---- data ----
    Rng dr(vseed ^ 0xABCDEFu);
    f.data.resize(nF * (4 * nP + nC * nSub));
    for (auto &v : f.data) v = genFloatBits(dr);
    if (const Op *o = findOp(ops, "fdataenum")) {
        unsigned long long start = static_cast<unsigned long long>(absmod(o->arg(0), 1LL << 40));
        for (size_t i = 0; i < f.data.size(); ++i) f.data[i] = floatPattern(start + i);
        I.tags.insert("enum-float-data");
    }
    // ---- DATA_START: the real first data block ----
    {
        std::vector<uint8_t> tmp = ref::encode(f);
        ref::Decoded d = ref::decode(tmp);
        for (auto &r : f.recs)
            if (!r.isGroup && r.id == pointId && r.name == "DATA_START") { r.raw.clear(); rawInt(r.raw, static_cast<int>(d.f.h.dataStart)); }
    }
    return f;
}

std::vector<uint8_t> fileBytesOf(const std::vector<Op> &ops, FileInfo *info, bool *corrupted, bool *metaCorrupted) {
    if (corrupted) *corrupted = false;
    if (metaCorrupted) *metaCorrupted = false;
    std::vector<uint8_t> b;
    bool haveRaw = false;
    for (const Op &o : ops) if (o.code == "bytes") { haveRaw = true; for (long long v : o.a) b.push_back(static_cast<uint8_t>(v & 0xFF)); }
    for (const Op &o : ops) if (o.code == "vendor") {
        static const char *names[] = {"Vicon.c3d", "Qualisys.c3d", "Optotrak.c3d"};
        const char *repo = getenv("VERIF_REPO");
        std::string p = std::string(repo ? repo : "/repo") + "/test/c3dFiles/" + names[static_cast<size_t>(absmod(o.arg(0), 3))];
        if (readBytes(p, b)) { haveRaw = true; if (info) info->tags.insert(std::string("vendor:") + names[static_cast<size_t>(absmod(o.arg(0), 3))]); }
    }
    std::vector<ref::FieldLoc> fields;
    if (!haveRaw) { ref::File f = buildFile(ops, info); b = ref::encode(f, &fields); }
    size_t dataOff = b.size();
    for (auto &fl : fields) if (fl.kind == "data") dataOff = fl.off;
    for (const Op &o : ops) {
        if (o.code == "poke") {
            if (b.empty()) continue;
            size_t off = static_cast<size_t>(absmod(o.arg(0), static_cast<long long>(b.size())));
            uint8_t v = static_cast<uint8_t>(o.arg(1) & 0xFF);
            if (b[off] != v) { if (corrupted) *corrupted = true; if (metaCorrupted && off < dataOff) *metaCorrupted = true; }
            b[off] = v;
        } else if (o.code == "field") {
            if (fields.empty()) continue;
            // pick a structural field (not the bulk data) and overwrite it with a value
            std::vector<size_t> idx;
            for (size_t i = 0; i < fields.size(); ++i) if (fields[i].kind != "data" && fields[i].kind != "rec.data") idx.push_back(i);
            const ref::FieldLoc &fl = fields[idx[static_cast<size_t>(absmod(o.arg(0), static_cast<long long>(idx.size())))]];
            unsigned long long v = static_cast<unsigned long long>(o.arg(1));
            for (size_t k = 0; k < fl.size && k < 4; ++k) {
                if (fl.off + k >= b.size()) break;     // the file was truncated before this field
                uint8_t nb = static_cast<uint8_t>((v >> (8 * k)) & 0xFF);
                if (b[fl.off + k] != nb) { if (corrupted) *corrupted = true; if (metaCorrupted) *metaCorrupted = true; }
                b[fl.off + k] = nb;
            }
        } else if (o.code == "dims") {
            // dims <k> <type or 0> <nd> <d1..dnd>: overwrite the type byte (if non-zero), the dimension count and the bytes behind it of the k-th
            // parameter record in one go (a multi-byte corruption a single poke cannot produce: products that overflow 16, 32 or 64 bits)
            std::vector<size_t> recs;
            for (size_t i = 0; i < fields.size(); ++i) if (fields[i].kind == "rec.ndims") recs.push_back(i);
            if (recs.empty()) continue;
            const size_t fi = recs[static_cast<size_t>(absmod(o.arg(0), static_cast<long long>(recs.size())))];
            const size_t ndOff = fields[fi].off;
            std::vector<std::pair<size_t, uint8_t>> w;
            if (o.arg(1) != 0 && ndOff >= 1) w.push_back({ndOff - 1, static_cast<uint8_t>(o.arg(1) & 0xFF)});
            const long long nd = absmod(o.arg(2), 8);
            w.push_back({ndOff, static_cast<uint8_t>(nd)});
            for (long long k = 0; k < nd; ++k) w.push_back({ndOff + 1 + static_cast<size_t>(k), static_cast<uint8_t>(o.arg(3 + static_cast<size_t>(k)) & 0xFF)});
            for (auto &x : w) if (x.first < b.size() && b[x.first] != x.second) { b[x.first] = x.second; if (corrupted) *corrupted = true; if (metaCorrupted) *metaCorrupted = true; }
        } else if (o.code == "trunc") {
            size_t n = static_cast<size_t>(absmod(o.arg(0), static_cast<long long>(b.size() + 1)));
            if (n < b.size()) { if (corrupted) *corrupted = true; if (metaCorrupted && n < dataOff) *metaCorrupted = true; b.resize(n); }
        } else if (o.code == "truncmeta") {
            size_t n = static_cast<size_t>(absmod(o.arg(0), static_cast<long long>(dataOff + 1)));
            if (n < b.size()) { if (corrupted) *corrupted = true; if (metaCorrupted) *metaCorrupted = true; b.resize(n); }
        }
    }
    return b;
}

} // namespace vf
