// Independent C3D encoder / decoder written from the C3D specification (user guide in /repo/doc).
// Shares no code with ezc3d. Little-endian, float format only.
#pragma once
#include <cstdint>
#include <string>
#include <vector>
#include "snap.hpp"

namespace ref {

struct Rec {
    bool isGroup = false;
    int id = 1;                  // 1..127 (sign is implied by isGroup)
    std::string name;            // bytes exactly as stored in the file
    bool locked = false;
    std::string desc;
    // parameters only
    int type = 2;                // -1 char, 1 byte, 2 int16, 4 float
    std::vector<int> dims;       // 0..7 entries, each 0..255
    std::vector<uint8_t> raw;    // |type| * prod(dims) bytes
};

struct Hdr {
    unsigned nPoints = 0, nAnalogMeas = 0, first = 1, last = 1, maxGap = 0;
    uint32_t scale = 0xBF800000u;       // float bits, negative => float data
    unsigned dataStart = 0;             // 0 => encoder computes the real block
    unsigned nSub = 0;
    uint32_t rate = 0;
    unsigned keyLabelPresent = 0, firstBlockKeyLabel = 0, fourChar = 12345, nEvents = 0;
    uint32_t evTime[18] = {0};
    uint8_t evDisp[18] = {0};
    char evLabel[18][4] = {{0}};
};

struct File {
    size_t zeros = 0;            // zero bytes before the header
    int paramBlock = 2;          // 1-based block of the parameter section
    bool zeroPrologue = false;   // first two bytes of the parameter section 00 00 instead of 01 50
    int procType = 84;
    int termStyle = 0;           // 0: last record has next-offset 0; 1: last offset points at a zero byte
    uint8_t fillerByte = 0;      // content of filler blocks between header and parameter section
    int nbParamBlocks = -1;      // -1 => exact
    Hdr h;
    std::vector<Rec> recs;
    std::vector<uint32_t> data;  // float bit patterns, frame-major
};

struct FieldLoc { std::string kind; size_t off; size_t size; int rec; };

std::vector<uint8_t> encode(const File &f, std::vector<FieldLoc> *fields = nullptr);

struct Decoded {
    bool ok = false;                 // structure could be followed to the end
    std::string error;               // why not
    std::vector<std::string> notes;  // inconsistencies met on the way (each is a spec violation)
    File f;
    size_t paramSectionOffset = 0, paramSectionEnd = 0, dataOffset = 0, dataFloatsAvailable = 0;
    int blockCountByte = 0;
    size_t lastRecordEnd = 0;
    int pointDataStart = -1;         // POINT:DATA_START value if present
};
Decoded decode(const std::vector<uint8_t> &bytes);

// Content of a file as the C3D specification (and ezc3d's documented conventions) define it,
// expressed as a Snap so it can be compared with a snapshot of the loaded object.
vf::Snap contentOf(const File &f, std::string *why = nullptr);

size_t rawSize(const Rec &r);

} // namespace ref
