// Property registry: every property has a run function (oracle) that needs no PBT library.
#pragma once
#include <map>
#include <set>
#include <string>
#include "case.hpp"

namespace vf {

struct CaseResult {
    enum V { PASS, FAIL, DISCARD } v = PASS;
    std::string msg;               // failure detail / discard reason
    std::string knownFinding;      // id of the open known-finding class this failure belongs to ("" = none)
    std::set<std::string> tags;    // classification of the case
    bool nontrivial = false;
    std::string ntKey;             // key making the non-trivial case distinct (default: digest of the case text)
    std::map<std::string, long long> counters;   // extra per-case counts summed into the evidence
    void fail(const std::string &m) { if (v != FAIL) { v = FAIL; msg = m; } }
};

struct RunCtx {
    std::string scratch;           // scratch directory for this process
    int tier = 0;                  // 0 quick, 1 thorough
    std::set<std::string> openFindings;   // ids of open known findings (from known_findings.json, via VERIF_OPEN_FINDINGS; 'ID!C06!C08' = not excluded for C06, C08)
    std::map<std::string, std::set<std::string>> notExcludedFor;
    bool isOpen(const std::string &id) const { return openFindings.count(id) != 0; }
};

typedef CaseResult (*RunFn)(const Case &, RunCtx &);
struct PropDef { const char *id; RunFn run; const char *ntRule; };
const PropDef *findProp(const std::string &id);
RunCtx makeCtx(const std::string &tag);
// CPU-time guard around one case (ITIMER_PROF, process CPU time; VERIF_CASE_CPU_S, default 180 s): a case that needs more is reported
// on stderr (CPU-BUDGET-EXCEEDED) and the process exits with status 97, which the driver treats like a crash of that case
void caseCpuGuard(bool on);

// hooks (EZC3D_VERIF): per-thread read-work budget and declared-data guard
struct HookState {
    bool on = false;
    unsigned long long reads = 0, bytes = 0;
    unsigned long long readBudget = 0;        // 0 = unlimited
    unsigned long long declLimitBytes = 0;    // 0 = unlimited
    bool declExceeded = false, budgetExceeded = false;
    unsigned long long declared = 0;
};
HookState &hook();
void hookArm(unsigned long long fileSize);    // budgets proportional to the file size
void hookDisarm();

} // namespace vf
