#pragma once
#include "snap.hpp"
#include "ezc3d.h"
namespace vf {
Snap takeSnap(const ezc3d::c3d &c);
SFrame takeFrame(const ezc3d::DataNS::Frame &f);
SParam takeParam(const ezc3d::ParametersNS::GroupNS::Parameter &p);
}
