// Deterministic helpers: splitmix64 stream, float-pattern mixture, name pool.
#pragma once
#include <cstdint>
#include <cstring>
#include <string>
#include <vector>

namespace vf {

struct Rng {
    uint64_t s;
    explicit Rng(uint64_t seed) : s(seed * 0x9E3779B97F4A7C15ULL + 0x1234567ULL) {}
    uint64_t next() {
        uint64_t z = (s += 0x9E3779B97F4A7C15ULL);
        z = (z ^ (z >> 30)) * 0xBF58476D1CE4E5B9ULL;
        z = (z ^ (z >> 27)) * 0x94D049BB133111EBULL;
        return z ^ (z >> 31);
    }
    uint64_t below(uint64_t n) { return n ? next() % n : 0; }
};

inline float bitsToFloat(uint32_t b) { float f; std::memcpy(&f, &b, 4); return f; }
inline uint32_t floatToBits(float f) { uint32_t b; std::memcpy(&b, &f, 4); return b; }

// mixture: raw bit patterns, special values, measurement-like values
inline uint32_t genFloatBits(Rng &r) {
    static const uint32_t special[] = {
        0x00000000u, 0x80000000u, 0x00000001u, 0x80000001u, 0x007FFFFFu, 0x00800000u, 0x7F7FFFFFu, 0xFF7FFFFFu,
        0x7F800000u, 0xFF800000u, 0x7FC00000u, 0xFFC00000u, 0x7F800001u, 0x7FA00000u, 0xFFBFFFFFu, 0x7FFFFFFFu,
        0x3F800000u, 0xBF800000u, 0x4B000000u, 0x4B7FFFFFu, 0x4F000000u, 0xCF000000u, 0x5F000000u, 0x3DCCCCCDu,
        0x47000000u, 0x477FFF00u, 0x46FFFE00u, 0xC7000000u};
    uint64_t k = r.below(100);
    if (k < 40) return static_cast<uint32_t>(r.next());
    if (k < 60) return special[r.below(sizeof(special) / sizeof(special[0]))];
    long long iv = static_cast<long long>(r.below(20001)) - 10000;
    static const float div[] = {1.f, 7.f, 10.f, 1000.f, 3.f};
    return floatToBits(static_cast<float>(iv) / div[r.below(5)]);
}

// Name pool: a deterministic name for every non-negative integer, unique modulo case,
// alphabet A-Z a-z 0-9 _ ; lengths vary between 1 and maxLen.
inline std::string poolName(long long n, size_t maxLen = 24, bool mixedCase = true) {
    if (n < 0) n = -n;
    static const char alpha[] = "ABCDEFGHIJKLMNOPQRSTUVWXYZ_0123456789";
    std::string tag = std::to_string(n);
    Rng r(static_cast<uint64_t>(n) * 7919u + 17u);
    static const size_t lens[] = {1, 2, 3, 4, 5, 6, 8, 12, 16, 24, 31, 32, 33, 63, 64, 65, 100, 126, 127};
    size_t want = lens[r.below(sizeof(lens) / sizeof(lens[0]))];
    if (want > maxLen) want = 1 + r.below(maxLen);
    std::string s = "N" + tag;           // unique by construction
    while (s.size() < want) {
        char c = alpha[r.below(sizeof(alpha) - 1)];
        if (mixedCase && c >= 'A' && c <= 'Z' && r.below(3) == 0) c = static_cast<char>(c - 'A' + 'a');
        s.push_back(c);
    }
    if (s.size() > maxLen && maxLen >= tag.size() + 1) s.resize(maxLen);
    return s;
}

inline std::string genText(Rng &r, size_t len) {
    // printable ASCII without NUL; never ends with a space (trailing spaces are trimmed by documented behaviour)
    std::string s;
    for (size_t i = 0; i < len; ++i) s.push_back(static_cast<char>(0x20 + r.below(0x5F)));
    if (!s.empty() && s.back() == ' ') s.back() = '~';
    // now and then a tab / line feed / carriage return, also as the LAST character: only blanks (0x20) are padding in a C3D string
    if (!s.empty() && r.below(12) == 0) { static const char ws[] = {'\t', '\n', '\r', '\v', '\f'}; s[r.below(2) ? s.size() - 1 : r.below(s.size())] = ws[r.below(5)]; }
    return s;
}

inline std::string upper(std::string s) {
    for (char &c : s) if (c >= 'a' && c <= 'z') c = static_cast<char>(c - 'a' + 'A');
    return s;
}
inline std::string rtrim(std::string s) {
    while (!s.empty() && s.back() == ' ') s.pop_back();
    return s;
}

} // namespace vf
