// Snapshot through public accessors only.
#include "snap_take.hpp"
namespace vf {

SParam takeParam(const ezc3d::ParametersNS::GroupNS::Parameter &p) {
    SParam s;
    s.name = p.name(); s.desc = p.description(); s.locked = p.isLocked();
    s.type = static_cast<int>(p.type());
    s.dims = p.dimension();
    if (p.type() == ezc3d::DATA_TYPE::CHAR) s.strs = p.valuesAsString();
    else if (p.type() == ezc3d::DATA_TYPE::BYTE) s.ints = p.valuesAsByte();
    else if (p.type() == ezc3d::DATA_TYPE::INT) s.ints = p.valuesAsInt();
    else if (p.type() == ezc3d::DATA_TYPE::FLOAT) for (float f : p.valuesAsFloat()) s.floats.push_back(floatToBits(f));
    return s;
}

SFrame takeFrame(const ezc3d::DataNS::Frame &f) {
    SFrame s;
    const auto &pts = f.points();
    s.pts.resize(pts.nbPoints());
    for (size_t i = 0; i < pts.nbPoints(); ++i) {
        const auto &p = pts.point(i);
        s.pts[i].name = p.name();
        s.pts[i].v[0] = floatToBits(p.x()); s.pts[i].v[1] = floatToBits(p.y());
        s.pts[i].v[2] = floatToBits(p.z()); s.pts[i].v[3] = floatToBits(p.residual());
    }
    const auto &an = f.analogs();
    s.subs.resize(an.nbSubframes());
    for (size_t k = 0; k < an.nbSubframes(); ++k) {
        const auto &sf = an.subframe(k);
        s.subs[k].resize(sf.nbChannels());
        for (size_t c = 0; c < sf.nbChannels(); ++c) {
            s.subs[k][c].name = sf.channel(c).name();
            s.subs[k][c].v = floatToBits(sf.channel(c).data());
        }
    }
    return s;
}

Snap takeSnap(const ezc3d::c3d &c) {
    Snap s;
    const ezc3d::Header &h = c.header();
    s.h.nb3dPoints = h.nb3dPoints(); s.h.nbAnalogsMeasurement = h.nbAnalogsMeasurement(); s.h.nbAnalogs = h.nbAnalogs();
    s.h.firstFrame = h.firstFrame(); s.h.lastFrame = h.lastFrame(); s.h.nbFrames = h.nbFrames();
    s.h.nbMaxInterpGap = h.nbMaxInterpGap(); s.h.scaleFactor = h.scaleFactor(); s.h.dataStart = h.dataStart();
    s.h.nbAnalogByFrame = h.nbAnalogByFrame(); s.h.frameRate = floatToBits(h.frameRate());
    s.h.keyLabelPresent = h.keyLabelPresent(); s.h.firstBlockKeyLabel = h.firstBlockKeyLabel();
    s.h.fourCharPresent = h.fourCharPresent(); s.h.nbEvents = h.nbEvents();
    for (float f : h.eventsTime()) s.h.eventsTime.push_back(floatToBits(f));
    s.h.eventsDisplay = h.eventsDisplay();
    s.h.eventsLabel = h.eventsLabel();
    s.h.zeros = h.nbOfZerosBeforeHeader(); s.h.parametersAddress = h.parametersAddress(); s.h.checksum = h.checksum();
    s.h.empty1 = h.emptyBlock1(); s.h.empty2 = h.emptyBlock2(); s.h.empty3 = h.emptyBlock3(); s.h.empty4 = h.emptyBlock4();
    const auto &P = c.parameters();
    s.parametersStart = P.parametersStart(); s.pchecksum = P.checksum(); s.nbParamBlock = P.nbParamBlock();
    s.processorType = P.processorType();
    s.groups.resize(P.nbGroups());
    for (size_t g = 0; g < P.nbGroups(); ++g) {
        const auto &G = P.group(g);
        s.groups[g].name = G.name(); s.groups[g].desc = G.description(); s.groups[g].locked = G.isLocked();
        for (size_t p = 0; p < G.nbParameters(); ++p) s.groups[g].params.push_back(takeParam(G.parameter(p)));
    }
    const auto &D = c.data();
    s.frames.resize(D.nbFrames());
    for (size_t f = 0; f < D.nbFrames(); ++f) s.frames[f] = takeFrame(D.frame(f));
    return s;
}

} // namespace vf
