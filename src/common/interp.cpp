#include "interp.hpp"
#include "filemodel.hpp"
#include <cstdlib>
#include <dirent.h>
#include <iostream>
#include <sys/stat.h>
#include <unistd.h>

namespace vf {

// ---- tables -----------------------------------------------------------------------------------
static const float kRateTab[] = {1.f, 2.f, 4.f, 10.f, 25.f, 30.f, 50.f, 60.f, 100.f, 120.f, 125.f, 200.f, 250.f, 500.f, 1000.f, 12.5f, 62.5f, 0.5f, 1.5f, 2000.f};
const int kNumRates = sizeof(kRateTab) / sizeof(kRateTab[0]);
float rateOf(long long r) { if (r < 0) r = -r; return kRateTab[r % kNumRates]; }
static std::string lowerOf(std::string s) { for (auto &c : s) if (c >= 'A' && c <= 'Z') c = static_cast<char>(c - 'A' + 'a'); return s; }
std::string groupNameOf(long long g) {
    if (g < 0) g = -g;
    if (g == 0) return "POINT";
    if (g == 1) return "ANALOG";
    if (g == 2) return "FORCE_PLATFORM";
    if (g >= 700000 && g < 800000) return lowerOf(groupNameOf(g - 700000));     // same name in another letter case (a different name for every look-up)
    if (g >= 600000 && g < 700000) return groupNameOf(g - 600000) + (g % 2 ? " " : "  ");     // same name with trailing blanks (group names are kept as given)
    if (g >= 900000 && g < 1000000) { std::string b = groupNameOf(g - 900000); return b.substr(0, b.size() > 3 ? b.size() - 1 - static_cast<size_t>(g % 2) : b.size()); }   // a proper prefix of another group's name
    return poolName(1000 + g, 20);
}
std::string paramNameOf(long long n) {
    if (n < 0) n = -n;
    if (n >= 700000 && n < 800000) return lowerOf(paramNameOf(n - 700000));      // case variant of an ordinary name
    if (n >= 800000 && n < 900000) {                                              // longer than the 127 characters a file can hold (accepted in memory, refused by write)
        std::string b = paramNameOf(n - 800000); static const size_t lens[] = {128, 130, 200, 300};
        const size_t want = lens[static_cast<size_t>(n) % 4]; size_t k = 0;
        while (b.size() < want) b.push_back(static_cast<char>('A' + (k++ * 7 + static_cast<size_t>(n)) % 26));
        return b;
    }
    return poolName(2000 + n, 20);
}
std::string pointNameOf(long long n) { if (n < 0) n = -n; if (n == 33) return std::string(); return poolName(3000 + n, 20); }     // index 33: the unnamed point (a blank label)
std::string channelNameOf(long long n) { return poolName(4000 + (n < 0 ? -n : n), 20); }

Outcome classifyCurrentException() {
    Outcome o; o.threw = true;
    try { throw; }
    catch (const std::ios_base::failure &e) { o.cls = "ios_failure"; o.what = e.what(); }
    catch (const std::out_of_range &e) { o.cls = "out_of_range"; o.what = e.what(); }
    catch (const std::invalid_argument &e) { o.cls = "invalid_argument"; o.what = e.what(); }
    catch (const std::range_error &e) { o.cls = "range_error"; o.what = e.what(); }
    catch (const std::runtime_error &e) { o.cls = "runtime_error"; o.what = e.what(); }
    catch (const std::logic_error &e) { o.cls = "logic_error"; o.what = e.what(); }
    catch (const std::bad_alloc &e) { o.cls = "bad_alloc"; o.what = e.what(); }
    catch (const std::exception &e) { o.cls = "std_exception"; o.what = e.what(); }
    catch (const char *s) { o.cls = std::string(s).rfind("budget", 0) == 0 ? "budget" : "non_std"; o.what = s; }
    catch (...) { o.cls = "non_std"; }
    return o;
}

static std::vector<std::string> g_dirs;
static void rmTree(const std::string &d) {
    DIR *dp = opendir(d.c_str());
    if (dp) {
        while (dirent *e = readdir(dp)) {
            std::string n = e->d_name;
            if (n == "." || n == "..") continue;
            std::string p = d + "/" + n;
            struct stat st; if (lstat(p.c_str(), &st) == 0 && S_ISDIR(st.st_mode)) rmTree(p); else unlink(p.c_str());
        }
        closedir(dp);
    }
    rmdir(d.c_str());
}
static void cleanupDirs() { for (auto &d : g_dirs) rmTree(d); }
std::string makeScratchDir(const std::string &tag) {
    const char *base = getenv("VERIF_WORK");
    std::string root = base ? base : "/verif/.work";
    mkdir(root.c_str(), 0777);
    std::string d = root + "/" + tag + "-" + std::to_string(getpid());
    rmTree(d);
    mkdir(d.c_str(), 0777);
    static bool reg = false;
    if (!reg) { atexit(cleanupDirs); reg = true; }
    g_dirs.push_back(d);
    return d;
}

static int firstInt(const ezc3d::ParametersNS::GroupNS::Parameter &p) {
    const auto &v = p.valuesAsInt(); return v.empty() ? 0 : v[0];
}
static float firstFloat(const ezc3d::ParametersNS::GroupNS::Parameter &p) {
    const auto &v = p.valuesAsFloat(); return v.empty() ? 0.f : v[0];
}
Shape shapeOf(const ezc3d::c3d &c) {
    Shape s;
    const auto &P = c.parameters().group("POINT");
    const auto &A = c.parameters().group("ANALOG");
    int np = firstInt(P.parameter("USED")); s.nP = np < 0 ? 0 : static_cast<size_t>(np);
    s.plabels = P.parameter("LABELS").valuesAsString();
    s.prate = firstFloat(P.parameter("RATE"));
    if (A.nbParameters()) {
        try {
            int nc = firstInt(A.parameter("USED")); s.nC = nc < 0 ? 0 : static_cast<size_t>(nc);
            s.alabels = A.parameter("LABELS").valuesAsString();
            s.arate = firstFloat(A.parameter("RATE"));
        } catch (const std::invalid_argument &) { s.nC = 0; s.alabels.clear(); s.arate = 0; }   // vendor-style ANALOG group without the standard parameters
    }
    s.nSub = c.header().nbAnalogByFrame();
    s.nFrames = c.data().nbFrames();
    return s;
}

// names are stored upper-case in a file: two groups, or two parameters of one group, whose names differ only by letter case cannot both be saved
bool uniqueModuloCase(const ezc3d::c3d &c) {
    std::set<std::string> gs;
    for (size_t g = 0; g < c.parameters().nbGroups(); ++g) {
        const auto &G = c.parameters().group(g);
        if (G.name().empty() && G.nbParameters() == 0) continue;
        if (!gs.insert(upper(G.name())).second) return false;
        std::set<std::string> ps;
        for (size_t p = 0; p < G.nbParameters(); ++p) if (!ps.insert(upper(G.parameter(p).name())).second) return false;
    }
    return true;
}

// ---- parameter spec --------------------------------------------------------------------------------
// param <g> <n> <type> <lock> <desclen> <vseed> <delta> <nd> <d1..dnd>
ParamSpec paramSpecOf(const Op &op) {
    ParamSpec s;
    s.group = groupNameOf(op.arg(0));
    long long n = op.arg(1);
    s.name = n == -1 ? "" : paramNameOf(n);
    s.unnamed = n == -1;
    long long t = op.arg(2); if (t < 0) t = -t;
    s.type = static_cast<int>(t % 4);            // 3 => untyped (no set call)
    s.untyped = s.type == 3;
    s.lock = op.arg(3) % 2 != 0;
    long long dl = op.arg(4); if (dl < 0) dl = -dl; if (dl > 400) dl = 400;      // beyond 255: accepted in memory, refused by write
    Rng r(static_cast<uint64_t>(op.arg(5)));
    s.desc = genText(r, static_cast<size_t>(dl));
    long long delta = op.arg(6);
    long long nd = op.arg(7); if (nd < 0) nd = -nd; if (nd > 7) nd = 7;
    if (s.type == 2 && nd > 6) nd = 6;          // strings gain a leading dimension; the format allows 7
    size_t prod = 1;
    for (long long i = 0; i < nd; ++i) {
        long long d = op.arg(8 + static_cast<size_t>(i)); if (d < 0) d = -d; if (d > 255) d = 255;
        s.dims.push_back(static_cast<size_t>(d)); prod *= static_cast<size_t>(d);
    }
    size_t count;
    if (nd == 0) { count = static_cast<size_t>(delta < 0 ? -delta : delta); if (count > 300) count = 300; s.consistent = true; }
    else if (delta == -999999) { count = 0; s.consistent = (prod == 0); }      // empty data with an explicit shape
    else if (delta <= -888881 && delta >= -888889) {                             // as many values as the product of the first k dimensions only
        size_t kdim = static_cast<size_t>(-888880 - delta); if (kdim > s.dims.size()) kdim = s.dims.size();
        size_t pp = 1; for (size_t i2 = 0; i2 < kdim; ++i2) pp *= s.dims[i2];
        count = pp > 3000 ? 3000 : pp; s.consistent = (count == prod);
    }
    else {
        const size_t cap = s.type == 2 ? 600 : 30000;      // up to 60 KB of int data: records beyond 32767 bytes are legal
        size_t capped = prod > cap ? cap : prod;     // never build huge arrays; a capped array is inconsistent on purpose
        long long c = static_cast<long long>(capped) + delta; if (c < 0) c = 0;
        count = static_cast<size_t>(c);
        s.consistent = (count == prod);
    }
    s.count = count;
    if (s.type == 0) for (size_t i = 0; i < count; ++i) s.ints.push_back(static_cast<int>(r.below(65536)) - 32768);
    else if (s.type == 1) for (size_t i = 0; i < count; ++i) s.floats.push_back(genFloatBits(r));
    else if (s.type == 2) {
        // mostly short strings; sometimes one long entry (up to 255) so that the others are padded by more than 127 blanks
        const bool longOne = count >= 1 && count <= 40 && r.below(6) == 0;
        const size_t longIdx = longOne ? r.below(count) : 0;
        static const size_t longLens[] = {127, 128, 129, 160, 200, 254, 255};
        for (size_t i = 0; i < count; ++i) {
            if (longOne && i == longIdx) s.strs.push_back(genText(r, longLens[r.below(7)]));
            else s.strs.push_back(genText(r, r.below(4) == 0 ? 0 : r.below(24)));
        }
        // now and then one value ends in blanks (kept in memory, padding in a file): it may be the longest value only because of them
        if (!s.strs.empty() && r.below(8) == 0) { std::string &v = s.strs[r.below(s.strs.size())]; const size_t nb = 1 + r.below(9); if (v.size() + nb <= 255) v += std::string(nb, ' '); }
    }
    return s;
}

static ezc3d::ParametersNS::GroupNS::Parameter makeParameter(const ParamSpec &s, Outcome &setOutcome) {
    ezc3d::ParametersNS::GroupNS::Parameter p(s.name, s.desc);
    try {
        // a single value without explicit shape goes through the scalar overloads (set(int), set(size_t), set(float), set(double), set(string)) half of the time
        const bool scalar = s.dims.empty() && s.count == 1 && (s.desc.size() % 2 == 0);
        if (s.type == 0) {
            if (scalar) { if (s.ints[0] >= 0 && s.ints[0] % 2 == 0) p.set(static_cast<size_t>(s.ints[0])); else p.set(s.ints[0]); }
            else if (s.dims.empty()) p.set(s.ints); else p.set(s.ints, s.dims);
        } else if (s.type == 1) {
            std::vector<float> v; for (uint32_t b : s.floats) v.push_back(bitsToFloat(b));
            if (scalar) { if (s.floats[0] % 2 == 0 || v[0] != v[0]) p.set(v[0]); else p.set(static_cast<double>(v[0])); }   // (a NaN payload does not survive the double overload: hardware conversion)
            else if (s.dims.empty()) p.set(v); else p.set(v, s.dims);
        } else if (s.type == 2) { if (scalar) p.set(s.strs[0]); else if (s.dims.empty()) p.set(s.strs); else p.set(s.strs, s.dims); }
    } catch (...) { setOutcome = classifyCurrentException(); }
    if (s.lock) p.lock();
    return p;
}

static bool hasAnalogGap(const ezc3d::c3d &c, const Shape &s) {
    for (size_t f = 0; f < c.data().nbFrames(); ++f) if (c.data().frame(f).analogs().nbSubframes() != s.nSub) return true;
    return false;
}

// ---- frames ------------------------------------------------------------------------------------
static void fillPoint(ezc3d::DataNS::Points3dNS::Point &pt, Rng &r) {
    pt.x(bitsToFloat(genFloatBits(r))); pt.y(bitsToFloat(genFloatBits(r))); pt.z(bitsToFloat(genFloatBits(r)));
    pt.residual(bitsToFloat(genFloatBits(r)));
}

// deviations: 0 none, 1 pt-1, 2 pt+1, 3 rename one, 4 duplicate a label, 5 no points, 6 ch-1, 7 ch+1, 8 no sub-frames,
//             9 sub-1, 10 sub+1, 11 permute points, 12 unnamed channels (README style)
static ezc3d::DataNS::Frame buildFrame(const Shape &s, long long dev, uint64_t vseed, std::string &note) {
    Rng r(vseed);
    std::vector<std::string> names;
    for (size_t i = 0; i < s.nP; ++i) names.push_back(i < s.plabels.size() ? s.plabels[i] : "unlabeled_point_" + std::to_string(i));
    size_t nC = s.nC, nSub = s.nC ? s.nSub : 0;
    if (nC && s.prate >= 1.f && s.arate > 0.f && vseed % 3 == 0 && s.nFrames == 0) {
        // callers may also derive the sub-frame count from the declared rates (ANALOG:RATE / POINT:RATE) instead of the header
        float q = s.arate / s.prate;
        if (q >= 1.f && q == static_cast<float>(static_cast<long long>(q)) && q < 1000.f) nSub = static_cast<size_t>(q);
    }
    note = "match";
    switch (dev) {
    case 1: if (!names.empty()) { names.pop_back(); note = "pt-1"; } break;
    case 2: names.push_back("extra_point"); note = "pt+1"; break;
    case 3: if (!names.empty()) { names[r.below(names.size())] = "renamed_point"; note = "rename"; } break;
    case 4: if (names.size() >= 2) { size_t i = r.below(names.size()), j = (i + 1 + r.below(names.size() - 1)) % names.size(); names[i] = names[j]; note = "dup"; } break;
    case 5: if (!names.empty()) { names.clear(); note = "nopts"; } break;
    case 6: if (nC > 0 && nSub > 0) { --nC; note = "ch-1"; } break;
    case 7: if (nSub > 0) { ++nC; note = "ch+1"; } break;
    case 8: if (nSub > 0) { nSub = 0; note = "nosub"; } break;
    case 9: if (nSub > 1) { --nSub; note = "sub-1"; } break;
    case 10: if (nSub > 0) { ++nSub; note = "sub+1"; } break;
    case 11: if (names.size() >= 2) { std::swap(names[0], names[names.size() - 1]); note = "perm"; } break;
    case 14: if (!names.empty()) { size_t i = r.below(names.size()); names[i] = names[i] + (r.below(2) ? "2" : "_old"); note = "rename-extended"; } break;   // the label is a proper prefix of the new name
    default: break;
    }
    ezc3d::DataNS::Points3dNS::Points pts;
    for (auto &n : names) { ezc3d::DataNS::Points3dNS::Point pt; pt.name(n); fillPoint(pt, r); pts.point(pt); }
    ezc3d::DataNS::AnalogsNS::Analogs an;
    for (size_t k = 0; k < nSub; ++k) {
        ezc3d::DataNS::AnalogsNS::SubFrame sf;
        for (size_t c = 0; c < nC; ++c) {
            ezc3d::DataNS::AnalogsNS::Channel ch;
            if (dev != 12) ch.name(c < s.alabels.size() ? s.alabels[c] : "unlabeled_analog_" + std::to_string(c));
            ch.data(bitsToFloat(genFloatBits(r)));
            sf.channel(ch);
        }
        an.subframe(sf);
    }
    if (dev == 12 && nSub > 0 && nC > 0) note = "unnamed-channels";
    if (dev == 13 && nSub >= 2 && nC >= 1) {      // the last sub-frame holds one channel fewer
        ezc3d::DataNS::AnalogsNS::SubFrame shortSf;
        for (size_t c = 0; c + 1 < nC; ++c) shortSf.channel(an.subframe_nonConst(nSub - 1).channel(c));
        an.subframe(shortSf, nSub - 1);
        note = "ragged-sub-channels";
    }
    ezc3d::DataNS::Frame f;
    f.add(pts, an);
    // make sure the caller's frame really carries the residuals (set through the documented non-const accessor)
    Rng rr(vseed ^ 0x5151u);
    for (size_t i = 0; i < f.points().nbPoints(); ++i) f.points_nonConst().point_nonConst(i).residual(bitsToFloat(genFloatBits(rr)));
    return f;
}

// ---- stdout silencer for print() -----------------------------------------------------------
namespace { struct NullBuf : std::streambuf { int overflow(int c) override { return c; } }; }

Interp::Interp(const std::string &scratchDir) : dir(scratchDir) { slots.resize(4); obj.reset(new ezc3d::c3d()); trace = getenv("VERIF_TRACE") != nullptr; }
Interp::Interp(const RunCtx &ctx, const std::string &prop) : Interp(ctx.scratch) {
    propId = prop;
    for (auto &id : ctx.openFindings) {
        auto it = ctx.notExcludedFor.find(id);
        if (!prop.empty() && it != ctx.notExcludedFor.end() && it->second.count(prop)) continue;
        openFindings.insert(id);
    }
}
Interp::~Interp() {}
ParamSpec Interp::specOf(const Op &op) const { ParamSpec s = paramSpecOf(op); if (namesUpper) { s.group = upper(s.group); s.name = upper(s.name); } return s; }
std::string Interp::groupOf(long long g) const { std::string n = groupNameOf(g); return namesUpper ? upper(n) : n; }

void Interp::run(const Case &c) {
    caseOps = &c.ops;
    for (size_t i = 0; i < c.ops.size(); ++i) {
        const Op &op = c.ops[i];
        if (op.code.size() && op.code[0] == 'f' && op.code != "fbuild" && op.code != "fmut" && op.code != "fsub" && op.code != "fsubx") continue;   // file-model ops
        if (op.code == "poke" || op.code == "dims" || op.code == "field" || op.code == "trunc" || op.code == "truncmeta" || op.code == "bytes" || op.code == "cfg" || op.code == "vendor" || op.code == "sweeptrunc" || op.code == "sweeppoke") continue;
        if (L) L->before(*this, op, i);
        const size_t framesBefore = obj->data().nbFrames();
        Outcome out = exec(op);
        ++opsRun;
        if (!out.threw && !out.skipped) {
            const std::string &k = op.code;
            if (k == "fsub" || k == "fsubx" || k == "selfsub") {
                if (out.note.rfind("extend", 0) == 0) { size_t idx = static_cast<size_t>(atoll(out.note.c_str() + 7)); for (size_t g2 = framesBefore; g2 < idx; ++g2) gapIdx.insert(g2); }
                if (out.note.rfind("replace", 0) == 0) {
                    const long long idx = atoll(out.note.c_str() + 8); gapIdx.erase(static_cast<size_t>(idx));
                    for (int s2 = 0; s2 < 4; ++s2) if (slotAlias[s2] == idx) slotAlias[s2] = -1;      // the stored frame received fresh blocks: the copy is on its own now
                }
            }
            if (k == "fsub" || k == "fsubx" || k == "selfsub") {
                // the frame just stored may itself hold no sub-frame (points only): same class as a gap frame for KF-GAPCOL
                size_t target = framesBefore;
                if (out.note.rfind("replace", 0) == 0) target = static_cast<size_t>(atoll(out.note.c_str() + 8));
                else if (out.note.rfind("extend", 0) == 0) target = static_cast<size_t>(atoll(out.note.c_str() + 7));
                if (target < obj->data().nbFrames()) { if (obj->data().frame(target).analogs().nbSubframes() == 0) gapIdx.insert(target); else gapIdx.erase(target); }
            }
            if (k == "load" || k == "reload" || k == "new") { gapIdx.clear(); for (int s2 = 0; s2 < 4; ++s2) slotAlias[s2] = -1; }
            if (k == "gapfill") gapIdx.clear();
        }
        if (trace) {
            fprintf(stderr, "  [%zu] %s", i, op.code.c_str());
            for (auto v : op.a) fprintf(stderr, " %lld", v);
            fprintf(stderr, "  -> %s%s %s | %s\n", out.skipped ? "skipped" : (out.threw ? "threw " : "ok"), out.cls.c_str(), out.what.substr(0, 90).c_str(), out.note.c_str());
        }
        if (L) L->after(*this, op, i, out);
        if (out.undocumented) { halted = true; break; }
        if (L && L->stop) break;
    }
}

Outcome Interp::exec(const Op &op) {
    Outcome out;
    const std::string &k = op.code;
    // KF-EMPTYANALOG: on an object whose ANALOG group is empty every parameter / column / rate call changes the object and then throws from
    // the header update (the finding, C10), and a matching frame is refused (a violation for the properties that demand acceptance, but a
    // CLEAN refusal: nothing is stored). For C10 the frame calls therefore stay in the history: they must leave the object unchanged
    const bool c10Narrow = propId == "C10";
    if (analogGroupEmpty && openFindings.count("KF-EMPTYANALOG") &&
        (k == "declp" || k == "decla" || (k == "fsub" && !c10Narrow) || k == "pcol" || k == "acol" || k == "param" || k == "prate" || k == "arate" || k == "gapfill" || k == "padp" || k == "limit")) {
        excluded["KF-EMPTYANALOG"]++; out.skipped = true; out.note = "excluded: known finding KF-EMPTYANALOG (editing an object whose ANALOG group is empty)"; return out;
    }
    try {
        if (k == "new") { obj.reset(new ezc3d::c3d()); }
        else if (k == "load") {
            // object := c3d(file described by the f* ops of the case)
            FileInfo fi;
            fileBytes = fileBytesOf(*caseOps, &fi);
            std::string p = path("in_" + std::to_string(saves++) + ".c3d");
            writeBytes(p, fileBytes);
            std::unique_ptr<ezc3d::c3d> n(new ezc3d::c3d(p));
            obj = std::move(n);
            namesUpper = true;
            analogGroupEmpty = obj->parameters().group("ANALOG").nbParameters() == 0;
        }
        else if (k == "declp" || k == "decla" || k == "declax") {
            const bool isP = k == "declp";   // declax: decla never excluded
            std::string base = isP ? pointNameOf(op.arg(0)) : channelNameOf(op.arg(0));
            out.note = base + std::string(static_cast<size_t>((op.arg(1) < 0 ? -op.arg(1) : op.arg(1)) % 4), ' ');
            Shape s = shapeOf(*obj);
            const auto &ex = isP ? s.plabels : s.alabels;
            bool exists = false; for (auto &e : ex) if (rtrim(e) == base) exists = true;
            if (exists && s.nFrames == 0) { out.skipped = true; out.note = "already declared (no data): undocumented, not called"; return out; }
            if (!isP && !gapIdx.empty() && hasAnalogGap(*obj, s) && openFindings.count("KF-GAPCOL") && k == "decla") {
                excluded["KF-GAPCOL"]++; out.skipped = true; out.note = "excluded: known finding KF-GAPCOL"; return out;
            }
            out.mutating = true;
            if (exists) out.note += "|exists";
            if (isP) obj->point(out.note.substr(0, out.note.find('|'))); else obj->analog(out.note.substr(0, out.note.find('|')));
        }
        else if (k == "prate") {
            const float nr = op.arg(0) == -1 ? 0.f : rateOf(op.arg(0));
            {   // the analog rate must stay an integer multiple (>=1) of the point rate: anything else is inconsistent content
                Shape s = shapeOf(*obj);
                if (s.arate != 0.f && nr != 0.f) {
                    float q = s.arate / nr;
                    if (!(q >= 1.f) || q != static_cast<float>(static_cast<long long>(q))) { out.skipped = true; out.note = "rates would be inconsistent: not called"; return out; }
                    // (ANALOG:RATE is set as 1..20 x POINT:RATE; lowering POINT:RATE afterwards could ask for thousands of sub-frames per frame,
                    //  which costs the harness minutes per case and, times the channels, leaves the header's capacity: C17 owns that limit)
                    if (q > 256.f) { out.skipped = true; out.note = "more than 256 sub-frames per frame: not explored by histories (C17 owns the sub-frame limit)"; return out; }
                }
            }
            out.mutating = true;
            ezc3d::ParametersNS::GroupNS::Parameter p("RATE");
            p.set(std::vector<float>() = {nr});
            obj->parameter("POINT", p);
        }
        else if (k == "pratex") {
            // a point rate very close to a table rate (table + delta/100 Hz): exercises the 1e-4 Hz agreement of header and POINT:RATE
            Shape s = shapeOf(*obj);
            if (s.arate != 0.f) { out.skipped = true; out.note = "analog rate set: a fractional point rate would make the ratio inconsistent, not called"; return out; }
            long long d = op.arg(1) % 10;
            const float nr = rateOf(op.arg(0)) + static_cast<float>(d) * 0.01f;
            if (!(nr > 0.f)) { out.skipped = true; return out; }
            out.mutating = true;
            ezc3d::ParametersNS::GroupNS::Parameter p("RATE");
            p.set(std::vector<float>() = {nr});
            obj->parameter("POINT", p);
        }
        else if (k == "arate") {
            out.mutating = true;
            float pr = shapeOf(*obj).prate;
            long long m = op.arg(0); if (m < 0) m = -m;
            float ar = pr != 0.f ? pr * static_cast<float>(1 + m % 20) : rateOf(m);
            if (op.arg(0) == -1) ar = 0.f;
            ezc3d::ParametersNS::GroupNS::Parameter p("RATE");
            p.set(std::vector<float>() = {ar});
            obj->parameter("ANALOG", p);
        }
        else if (k == "pused" || k == "aused") {
            out.mutating = true;
            ezc3d::ParametersNS::GroupNS::Parameter p(obj->parameters().group(k == "pused" ? "POINT" : "ANALOG").parameter("USED"));
            long long n = op.arg(0); if (n < 0) n = -n;
            p.set(std::vector<int>() = {static_cast<int>(n % 256)});
            obj->parameter(k == "pused" ? "POINT" : "ANALOG", p);
        }
        else if (k == "pframes") {
            // pframes <delta>: the caller edits POINT:FRAMES by hand (stored frames + delta); legal, the header follows the parameter
            out.mutating = true;
            ezc3d::ParametersNS::GroupNS::Parameter p(obj->parameters().group("POINT").parameter("FRAMES"));
            long long n = static_cast<long long>(obj->data().nbFrames()) + op.arg(0); if (n < 0) n = 0; if (n > 32767) n = 32767;
            p.set(std::vector<int>() = {static_cast<int>(n)});
            out.note = "POINT:FRAMES=" + std::to_string(n) + " stored=" + std::to_string(obj->data().nbFrames());
            obj->parameter("POINT", p);
        }
        else if (k == "selfparam") {
            // selfparam <g> <p> <dst>: a REFERENCE to a parameter the object itself holds is handed to c3d::parameter for another (often new) group
            const auto &PS = obj->parameters();
            std::vector<size_t> gs; for (size_t g2 = 0; g2 < PS.nbGroups(); ++g2) if (PS.group(g2).nbParameters() > 0) gs.push_back(g2);
            if (gs.empty()) { out.skipped = true; out.note = "no parameter to hand back"; return out; }
            const auto &G = PS.group(gs[static_cast<size_t>(op.arg(0) < 0 ? -op.arg(0) : op.arg(0)) % gs.size()]);
            const auto &P = G.parameter(static_cast<size_t>(op.arg(1) < 0 ? -op.arg(1) : op.arg(1)) % G.nbParameters());
            long long d = op.arg(2) < 0 ? -op.arg(2) : op.arg(2); if (d < 3) d += 3;       // never into POINT / ANALOG / FORCE_PLATFORM (mandatory names)
            const std::string dst = groupOf(d);
            out.mutating = true; out.note = dst;
            lastSelfParam = takeParam(P);
            obj->parameter(dst, P);
        }
        else if (k == "param" || k == "paramx") {
            ParamSpec s = specOf(op);
            Outcome setOut;
            ezc3d::ParametersNS::GroupNS::Parameter p = makeParameter(s, setOut);
            if ((op.arg(3) / 2) % 2 != 0 && !s.unnamed && !s.untyped) {
                // the caller starts from a COPY of the parameter the object already holds (if any) and calls set() on it
                try {
                    ezc3d::ParametersNS::GroupNS::Parameter q2(obj->parameters().group(s.group).parameter(s.name));
                    q2.description(s.desc); if (s.lock) q2.lock(); else q2.unlock();
                    setOut = Outcome();
                    try {
                        if (s.type == 0) { if (s.dims.empty()) q2.set(s.ints); else q2.set(s.ints, s.dims); }
                        else if (s.type == 1) { std::vector<float> v; for (uint32_t b : s.floats) v.push_back(bitsToFloat(b)); if (s.dims.empty()) q2.set(v); else q2.set(v, s.dims); }
                        else { if (s.dims.empty()) q2.set(s.strs); else q2.set(s.strs, s.dims); }
                    } catch (...) { setOut = classifyCurrentException(); }
                    p = q2; out.note = "from-copy";
                } catch (const std::invalid_argument &) {}     // no such parameter yet: the fresh one is used
            }
            if (setOut.threw && out.note == "from-copy" && (op.arg(3) / 4) % 2 != 0) {
                // the caller catches the refusal and goes on with the parameter, which by C09 still holds what it held: hands it back to the object
                out.note = "set-refused-kept"; out.mutating = true;
                obj->parameter(s.group, p);
                return out;
            }
            if (setOut.threw) { const bool fromCopy = out.note == "from-copy"; out = setOut; out.note = fromCopy ? "set-refused-on-copy" : "set-refused"; out.mutating = false; return out; }
            out.mutating = true;
            obj->parameter(s.group, p);
        }
        else if (k == "preuse") {
            // preuse <g> <n> <seed>: ONE Parameter object receives 2..5 successive accepted set() calls of changing type and overload
            // (scalar, vector, vector with explicit shape) and is handed to the object after each of them
            Rng r(static_cast<uint64_t>(op.arg(2)) * 0x9E3779B97F4A7C15ull + 11u);
            const std::string grp = groupOf(op.arg(0) < 3 && op.arg(0) > -3 ? 3 + (op.arg(0) < 0 ? -op.arg(0) : op.arg(0)) : op.arg(0));   // never POINT/ANALOG/FORCE_PLATFORM
            const std::string name = namesUpper ? upper(paramNameOf(op.arg(1))) : paramNameOf(op.arg(1));
            ezc3d::ParametersNS::GroupNS::Parameter p(name);
            lastReuse.clear();
            const size_t steps = 2 + r.below(4);
            out.mutating = true;
            for (size_t st = 0; st < steps; ++st) {
                ParamSpec sp; sp.group = grp; sp.name = name; sp.type = static_cast<int>(r.below(3));
                const size_t shape = r.below(4);     // 0 scalar overload, 1 vector, 2 vector + 1 dimension, 3 vector + 2 dimensions
                size_t n = shape == 0 ? 1 : (shape == 3 ? 0 : r.below(4));
                if (shape == 3) { size_t a = 1 + r.below(3), b = r.below(3); sp.dims = {a, b}; n = a * b; }
                else if (shape == 2) sp.dims = {n};
                sp.count = n;
                for (size_t j = 0; j < n; ++j) {
                    if (sp.type == 0) sp.ints.push_back(static_cast<int>(r.below(2001)) - 1000);
                    else if (sp.type == 1) { float f = static_cast<float>(static_cast<int>(r.below(4001)) - 2000) / 8.f; sp.floats.push_back(floatToBits(f)); }
                    else sp.strs.push_back(genText(r, 1 + r.below(6)));
                }
                if (sp.type == 2 && shape >= 2) sp.dims.clear();     // (explicit shapes of string tables are C09's param op business)
                if (sp.type == 0) { if (shape == 0) { if (sp.ints[0] >= 0 && r.below(2)) p.set(static_cast<size_t>(sp.ints[0])); else p.set(sp.ints[0]); } else if (sp.dims.empty()) p.set(sp.ints); else p.set(sp.ints, sp.dims); }
                else if (sp.type == 1) { std::vector<float> v; for (uint32_t b : sp.floats) v.push_back(bitsToFloat(b));
                    if (shape == 0) { if (r.below(2)) p.set(v[0]); else p.set(static_cast<double>(v[0])); } else if (sp.dims.empty()) p.set(v); else p.set(v, sp.dims); }
                else { if (shape == 0) p.set(sp.strs[0]); else p.set(sp.strs); }
                lastReuse.push_back(sp);
                obj->parameter(grp, p);
            }
            out.note = grp;
        }
        else if (k == "dimq") {
            // dimq <n> <nd> <d1..dnd>: the public helper Parameter::isDimensionConsistent(n, dims) asked directly (also with no dimension at all)
            long long n = op.arg(0) < 0 ? -op.arg(0) : op.arg(0); long long nd = (op.arg(1) < 0 ? -op.arg(1) : op.arg(1)) % 8;
            std::vector<size_t> d; for (long long j = 0; j < nd; ++j) d.push_back(static_cast<size_t>((op.arg(2 + static_cast<size_t>(j)) < 0 ? -op.arg(2 + static_cast<size_t>(j)) : op.arg(2 + static_cast<size_t>(j))) % 256));
            ezc3d::ParametersNS::GroupNS::Parameter p("Q");
            out.note = std::string("dimq=") + (p.isDimensionConsistent(static_cast<size_t>(n), d) ? "1" : "0");
        }
        else if (k == "padp") {
            // padding parameter: int array of n elements with a description of d characters (sweeps the section length)
            long long n = op.arg(0) < 0 ? -op.arg(0) : op.arg(0), d = op.arg(1) < 0 ? -op.arg(1) : op.arg(1);
            ezc3d::ParametersNS::GroupNS::Parameter p("PADDING", std::string(static_cast<size_t>(d % 256), 'x'));
            std::vector<int> v(static_cast<size_t>(n % 256), 7);
            p.set(v);
            out.mutating = true;
            obj->parameter("PADGRP", p);
        }
        else if (k == "limit") {
            // limit <kind> <value>: content at / beyond a capacity limit of the format, built through the public API
            long long kind = op.arg(0), v = op.arg(1); if (v < 0) v = -v;
            out.mutating = true;
            auto mk = [&](const std::string &name, const std::string &desc) { ezc3d::ParametersNS::GroupNS::Parameter p(name, desc); p.set(std::vector<int>() = {1, 2, 3}); return p; };
            switch (kind) {
            case 0: obj->parameter("LIMITS", mk("DESCLEN", std::string(static_cast<size_t>(v), 'd'))); out.note = "param-description=" + std::to_string(v); break;
            case 1: obj->parameter("LIMITS", mk(std::string(static_cast<size_t>(v), 'N'), "x")); out.note = "param-name=" + std::to_string(v); break;
            case 2: obj->parameter(std::string(static_cast<size_t>(v), 'G'), mk("INGROUP", "")); out.note = "group-name=" + std::to_string(v); break;
            case 3: { ezc3d::ParametersNS::GroupNS::Parameter p("DIMLEN"); std::vector<int> a(static_cast<size_t>(v), 5); p.set(a); obj->parameter("LIMITS", p); out.note = "dimension=" + std::to_string(v); break; }
            case 4: { ezc3d::ParametersNS::GroupNS::Parameter p("STRLEN"); p.set(std::vector<std::string>() = {std::string(static_cast<size_t>(v), 's'), "t"}); obj->parameter("LIMITS", p); out.note = "string-length=" + std::to_string(v); break; }
            case 5: { ezc3d::ParametersNS::GroupNS::Parameter p("INTVAL"); p.set(std::vector<int>() = {static_cast<int>(op.arg(1)), 0, -1}); obj->parameter("LIMITS", p); out.note = "int=" + std::to_string(op.arg(1)); break; }
            case 6: for (long long i = 0; i < v; ++i) obj->point("LP" + std::to_string(i)); out.note = "points=" + std::to_string(v); break;
            case 7: for (long long i = 0; i < v; ++i) obj->analog("LC" + std::to_string(i)); out.note = "channels=" + std::to_string(v); break;
            case 8: {   // append v frames carrying the declared shape (same content, cheap)
                Shape s = shapeOf(*obj); std::string note; ezc3d::DataNS::Frame f = buildFrame(s, 0, 99, note);
                for (long long i = 0; i < v; ++i) obj->frame(f);
                out.note = "frames+=" + std::to_string(v); break; }
            case 9: {   // v parameters of about 500 bytes each: the parameter section grows to v/1.02 blocks
                for (long long i = 0; i < v; ++i) { ezc3d::ParametersNS::GroupNS::Parameter p("BLK" + std::to_string(i), std::string(200, 'b')); p.set(std::vector<int>(140, static_cast<int>(i))); obj->parameter("BLOCKS", p); }
                out.note = "block-params=" + std::to_string(v); break; }
            case 10: { ezc3d::ParametersNS::GroupNS::Parameter p("NDIM"); std::vector<size_t> d(static_cast<size_t>(v), 1); p.set(std::vector<int>() = {4}, d); obj->parameter("LIMITS", p); out.note = "dimensions=" + std::to_string(v); break; }
            case 12: {  // sub-frames per frame = v (POINT:RATE 1 Hz, ANALOG:RATE v Hz)
                ezc3d::ParametersNS::GroupNS::Parameter pr("RATE"); pr.set(std::vector<float>() = {1.f}); obj->parameter("POINT", pr);
                ezc3d::ParametersNS::GroupNS::Parameter ar("RATE"); ar.set(std::vector<float>() = {static_cast<float>(v)}); obj->parameter("ANALOG", ar);
                out.note = "subframes=" + std::to_string(v); break; }
            case 13: {  // table of v strings of 255 characters (both dimensions at their limit when v == 255; record > 32767 bytes from v == 129)
                ezc3d::ParametersNS::GroupNS::Parameter p("TABLE"); std::vector<std::string> t(static_cast<size_t>(v), std::string(255, 'q'));
                for (size_t i2 = 0; i2 < t.size(); ++i2) t[i2][i2 % 255] = static_cast<char>('A' + i2 % 26);
                p.set(t); obj->parameter("LIMITS", p); out.note = "table255x" + std::to_string(v); break; }
            case 14: {  // int matrix 255 x v
                ezc3d::ParametersNS::GroupNS::Parameter p("MATRIX"); std::vector<int> m(static_cast<size_t>(255 * v)); for (size_t i2 = 0; i2 < m.size(); ++i2) m[i2] = static_cast<int>(i2 % 30000);
                p.set(m, {255, static_cast<size_t>(v)}); obj->parameter("LIMITS", p); out.note = "matrix255x" + std::to_string(v); break; }
            case 15: {  // int matrix 255 x 128 (65280 bytes of data) with a description of v characters: the RECORD passes 65535 bytes from v = 249
                ezc3d::ParametersNS::GroupNS::Parameter p("BIGDESC", std::string(static_cast<size_t>(v), 'e')); std::vector<int> m(255 * 128, 3);
                p.set(m, {255, 128}); obj->parameter("LIMITS", p);
                ezc3d::ParametersNS::GroupNS::Parameter after("AFTER"); after.set(std::vector<int>() = {11, 12}); obj->parameter("LIMITS", after);
                out.note = "record255x128+desc" + std::to_string(v); break; }
            case 16: {  // v EMPTY strings: the entry count is a dimension (limit 255) although the values take no room in the record
                ezc3d::ParametersNS::GroupNS::Parameter p("EMPTIES"); p.set(std::vector<std::string>(static_cast<size_t>(v), std::string()));
                obj->parameter("LIMITS", p);
                ezc3d::ParametersNS::GroupNS::Parameter after("AFTER2"); after.set(std::vector<int>() = {21, 22}); obj->parameter("LIMITS", after);
                out.note = "empty-strings=" + std::to_string(v); break; }
            case 17: {  // a table without values whose shape is {0, v}
                ezc3d::ParametersNS::GroupNS::Parameter p("NOVALUES"); p.set(std::vector<int>(), {0, static_cast<size_t>(v)});
                obj->parameter("LIMITS", p); out.note = "shape0x" + std::to_string(v); break; }
            case 18: {  // fill the parameter section to EXACTLY 255 blocks minus one byte plus r (r = op.arg(1), signed): at r = 0 the terminating
                        // byte is the last byte of block 255, at r = 1 the records fill 255 blocks and the terminator needs a 256th
                auto sectionBytes = [&]() {
                    Snap sn = takeSnap(*obj); size_t bytes = 4;
                    for (auto &g2 : sn.groups) {
                        if (g2.name.empty() && g2.params.empty()) continue;
                        bytes += 2 + g2.name.size() + 2 + 1 + g2.desc.size();
                        for (auto &p2 : g2.params) { size_t data = p2.type == -1 ? 1 : static_cast<size_t>(p2.type); for (auto d2 : p2.dims) data *= d2; if (p2.dims.empty()) data = 0;
                            bytes += 2 + p2.name.size() + 2 + 2 + p2.dims.size() + data + 1 + p2.desc.size(); }
                    }
                    return bytes; };
                const long long target = 255LL * 512 - 1 + op.arg(1);
                { ezc3d::ParametersNS::GroupNS::Parameter p0("B0", std::string(200, 'b')); p0.set(std::vector<int>(140, 0)); obj->parameter("BLOCKS", p0); }
                long long cur = static_cast<long long>(sectionBytes()); int idx = 1;
                while (target - cur > 1100) {     // records of 2+name+2+2+1+280+1+200 bytes
                    ezc3d::ParametersNS::GroupNS::Parameter p2("B" + std::to_string(idx), std::string(200, 'b')); p2.set(std::vector<int>(140, idx)); obj->parameter("BLOCKS", p2);
                    cur += 2 + static_cast<long long>(("B" + std::to_string(idx)).size()) + 2 + 2 + 1 + 280 + 1 + 200; ++idx;
                }
                // the estimate is a few bytes generous: measure the real end of the last record in a file written now, then close the gap exactly
                {
                    const std::string mp = path("measure_section.c3d");
                    obj->write(mp);
                    std::vector<uint8_t> mb; readBytes(mp, mb);
                    ref::Decoded md = ref::decode(mb);
                    if (!md.ok && md.lastRecordEnd == 0) { out.skipped = true; out.note = "cannot measure the parameter section"; return out; }
                    cur = static_cast<long long>(md.lastRecordEnd) - static_cast<long long>(md.paramSectionOffset);
                }
                for (int part = 0; part < 4 && target - cur >= 13; ++part) {    // closing records: 2+5+2+2+1+2n+1+d = 13 + 2n + d bytes each
                    long long R = target - cur; const bool last = R <= 13 + 510 + 1;
                    long long take = last ? R : 13 + 400;
                    long long d = (take - 13) % 2, n = (take - 13 - d) / 2; if (n < 0) { n = 0; d = 0; }
                    ezc3d::ParametersNS::GroupNS::Parameter pf("FILL" + std::to_string(part), std::string(static_cast<size_t>(d), 'f')); pf.set(std::vector<int>(static_cast<size_t>(n), 9));
                    obj->parameter("BLOCKS", pf);
                    cur += 13 + 2 * n + d;
                }
                out.note = "section=255blocks" + std::string(op.arg(1) >= 0 ? "+" : "") + std::to_string(op.arg(1) - 1) + (cur == target ? "" : "|missed-by-" + std::to_string(target - cur)); break; }
            case 11: obj->parameter("LIMITS2", mk("G", "")); { /* group description cannot be set through c3d: covered via Group in a loaded file */ } out.note = "noop"; break;
            default: out.skipped = true; out.mutating = false; break;
            }
        }
        else if (k == "lockg") { out.mutating = true; obj->lockGroup(groupOf(op.arg(0))); }
        else if (k == "unlockg") { out.mutating = true; obj->unlockGroup(groupOf(op.arg(0))); }
        else if (k == "fbuild") {
            size_t slot = static_cast<size_t>((op.arg(0) < 0 ? -op.arg(0) : op.arg(0)) % 4);
            slots[slot] = buildFrame(shapeOf(*obj), op.arg(1), static_cast<uint64_t>(op.arg(2)), out.note);
            slotDev[slot] = out.note; slotAlias[slot] = -1;
        }
        else if (k == "slotcopy") {
            // slotcopy <slot> <k>: the caller takes a copy of stored frame k (a Frame copy shares its point / analog blocks with the original)
            size_t slot = static_cast<size_t>((op.arg(0) < 0 ? -op.arg(0) : op.arg(0)) % 4);
            const size_t n = obj->data().nbFrames();
            if (n == 0) { out.skipped = true; out.note = "no stored frame"; return out; }
            const size_t src = static_cast<size_t>(op.arg(1) < 0 ? -op.arg(1) : op.arg(1)) % n;
            const ezc3d::DataNS::Frame &stored = obj->data().frame(src);
            { Shape s = shapeOf(*obj);
              bool shapeOk = stored.points().nbPoints() == s.nP && stored.analogs().nbSubframes() == (s.nC ? s.nSub : 0);
              if (!shapeOk) { out.skipped = true; out.note = "stored frame does not carry the declared shape (gap frame)"; return out; } }
            slots[slot] = stored; slotDev[slot] = "match"; slotAlias[slot] = static_cast<long long>(src);
            out.note = "copy-of " + std::to_string(src);
        }
        else if (k == "refill") {
            // refill <slot> <dev> <seed>: the caller reuses ONE Frame object (README style): new content is put into it with add(); whatever it
            // shared before (another slot's blocks, a stored frame's blocks) must stay as it was
            size_t slot = static_cast<size_t>((op.arg(0) < 0 ? -op.arg(0) : op.arg(0)) % 4);
            ezc3d::DataNS::Frame F = buildFrame(shapeOf(*obj), op.arg(1), static_cast<uint64_t>(op.arg(2)), out.note);
            const uint64_t how = static_cast<uint64_t>(op.arg(2) < 0 ? -op.arg(2) : op.arg(2)) % 3;
            if (how == 0) slots[slot].add(F.points(), F.analogs());
            else if (how == 1) slots[slot].add(F);
            else { slots[slot].add(F.points()); slots[slot].add(F.analogs()); }
            slotDev[slot] = out.note; slotAlias[slot] = -1;
            out.note += how == 0 ? "|add(points,analogs)" : (how == 1 ? "|add(frame)" : "|add(points);add(analogs)");
        }
        else if (k == "fmut") {
            size_t slot = static_cast<size_t>((op.arg(0) < 0 ? -op.arg(0) : op.arg(0)) % 4);
            long long how = (op.arg(1) < 0 ? -op.arg(1) : op.arg(1)) % 5;
            if (slotAlias[slot] >= 0 && how != 3) { out.skipped = true; out.note = "the slot is a copy of a stored frame and shares its blocks (shallow by design): not edited in place"; return out; }
            Rng r(static_cast<uint64_t>(op.arg(2)));
            ezc3d::DataNS::Frame &f = slots[slot];
            if (how == 1 || how == 3 || how == 4) slotDev[slot] += "|mut:shape";
            if (how == 0) { auto &P = f.points_nonConst(); for (size_t i = 0; i < P.nbPoints(); ++i) fillPoint(P.point_nonConst(i), r); out.note = "points-values"; }
            else if (how == 1) { ezc3d::DataNS::Points3dNS::Point pt; pt.name("caller_added"); fillPoint(pt, r); f.points_nonConst().point(pt); out.note = "points-add"; }
            else if (how == 2) {
                auto &A = f.analogs_nonConst();
                for (size_t s = 0; s < A.nbSubframes(); ++s) for (size_t c = 0; c < A.subframe_nonConst(s).nbChannels(); ++c)
                    A.subframe_nonConst(s).channel_nonConst(c).data(bitsToFloat(genFloatBits(r)));
                out.note = "analog-values";
            }
            else if (how == 3) { ezc3d::DataNS::Points3dNS::Points np; f.add(np); out.note = "points-replaced-empty"; }
            else { ezc3d::DataNS::AnalogsNS::SubFrame sf; ezc3d::DataNS::AnalogsNS::Channel ch; ch.data(1.f); sf.channel(ch); f.analogs_nonConst().subframe(sf); out.note = "subframe-add"; }
        }
        else if (k == "selfelem") {
            // selfelem <slot> <kind> <src> <k>: an element of the caller's own Points / SubFrame / Analogs is handed to the indexed setter of the
            // SAME container with a position at or beyond its size (copy element src to position n+k)
            size_t slot = static_cast<size_t>((op.arg(0) < 0 ? -op.arg(0) : op.arg(0)) % 4);
            long long kind = (op.arg(1) < 0 ? -op.arg(1) : op.arg(1)) % 3;
            size_t src = static_cast<size_t>(op.arg(2) < 0 ? -op.arg(2) : op.arg(2)), kk = static_cast<size_t>(op.arg(3) < 0 ? -op.arg(3) : op.arg(3)) % 40;
            ezc3d::DataNS::Frame &f = slots[slot];
            if (slotAlias[slot] >= 0) { out.skipped = true; out.note = "the slot is a copy of a stored frame and shares its blocks (shallow by design): not edited in place"; return out; }
            if (kind == 0) {
                auto &P = f.points_nonConst(); const size_t n = P.nbPoints();
                if (n == 0) { out.skipped = true; out.note = "no point"; return out; }
                const auto &E = static_cast<const ezc3d::DataNS::Points3dNS::Points &>(P).point(src % n);
                P.point(E, n + kk); out.note = "point " + std::to_string(src % n) + "->" + std::to_string(n + kk);
            } else if (kind == 1) {
                auto &A = f.analogs_nonConst();
                if (A.nbSubframes() == 0 || A.subframe_nonConst(0).nbChannels() == 0) { out.skipped = true; out.note = "no channel"; return out; }
                auto &S = A.subframe_nonConst(0); const size_t n = S.nbChannels();
                const auto &E = static_cast<const ezc3d::DataNS::AnalogsNS::SubFrame &>(S).channel(src % n);
                S.channel(E, n + kk); out.note = "channel " + std::to_string(src % n) + "->" + std::to_string(n + kk);
            } else {
                auto &A = f.analogs_nonConst(); const size_t n = A.nbSubframes();
                if (n == 0) { out.skipped = true; out.note = "no sub-frame"; return out; }
                const auto &E = static_cast<const ezc3d::DataNS::AnalogsNS::Analogs &>(A).subframe(src % n);
                A.subframe(E, n + kk); out.note = "subframe " + std::to_string(src % n) + "->" + std::to_string(n + kk);
            }
            slotDev[slot] += "|mut:shape";
        }
        else if (k == "fsub" || k == "fsubx") {      // fsubx: same call, never excluded (directed reproductions of known findings)
            size_t slot = static_cast<size_t>((op.arg(0) < 0 ? -op.arg(0) : op.arg(0)) % 4);
            long long mode = (op.arg(1) < 0 ? -op.arg(1) : op.arg(1)) % 3;
            long long kk = op.arg(2) < 0 ? -op.arg(2) : op.arg(2);
            size_t n = obj->data().nbFrames();
            {
                Shape s = shapeOf(*obj);
                if (((s.nP == 0 && s.nC == 0) || (s.nC > 0 && s.nSub == 0)) && !allowUndeclaredFrames) {
                    out.skipped = true; out.note = "nothing declared (or channels declared without a usable ANALOG:RATE): adding frames is undocumented, not called"; return out;
                }
            }
            if (slotDev[slot] == "perm" && k == "fsub" && openFindings.count("KF-D21")) {
                excluded["KF-D21"]++; out.skipped = true; out.note = "excluded: known finding KF-D21 (frame whose points are a permutation of POINT:LABELS)"; return out;
            }
            if (mode == 2 && n == 0 && k == "fsub" && openFindings.count("KF-D20")) {
                excluded["KF-D20"]++; out.skipped = true; out.note = "excluded: known finding KF-D20 (indexed add beyond the end of an empty data set)"; return out;
            }
            out.mutating = true;
            if (mode == 0 || (mode == 1 && n == 0)) { out.note = "append"; obj->frame(slots[slot]); }
            else if (mode == 1) { size_t idx = static_cast<size_t>(kk) % n; out.note = "replace " + std::to_string(idx); obj->frame(slots[slot], idx); }
            else { size_t idx = n + static_cast<size_t>(kk % 6); out.note = "extend " + std::to_string(idx); obj->frame(slots[slot], idx); }
            // accepted although it deviates from the declared shape: the documentation does not promise this refusal; history ends
            if (slotDev[slot] != "match" && slotDev[slot] != "unnamed-channels" && slotDev[slot] != "perm" && !slotDev[slot].empty()) {
                if (slotDev[slot].find("mut:") == std::string::npos || slotDev[slot].rfind("match", 0) != 0 || true) {
                    Shape s2 = shapeOf(*obj);
                    const auto &fr = slots[slot];
                    bool shapeOk = fr.points().nbPoints() == s2.nP && fr.analogs().nbSubframes() == (s2.nC ? s2.nSub : 0);
                    for (size_t q2 = 0; shapeOk && q2 < fr.analogs().nbSubframes(); ++q2) if (fr.analogs().subframe(q2).nbChannels() != s2.nC) shapeOk = false;
                    if (slotDev[slot].find("mut:") == std::string::npos || !shapeOk) out.undocumented = true;
                    if (out.undocumented && continueAfterConsistentDeviation && slotDev[slot] != "dup" && fr.points().nbPoints() == s2.nP && (fr.analogs().nbSubframes() == 0 || fr.analogs().subframe(0).nbChannels() == s2.nC)) {
                        // every filled stored frame carries the shape of the frame just stored (judged on the DATA, not on what the header says):
                        // the data set is uniform again and the history may go on
                        bool uniform = true;
                        for (size_t q3 = 0; q3 < fr.analogs().nbSubframes(); ++q3) if (fr.analogs().subframe(q3).nbChannels() != fr.analogs().subframe(0).nbChannels()) uniform = false;
                        for (size_t f2 = 0; f2 < obj->data().nbFrames() && uniform; ++f2) {
                            const auto &sf = obj->data().frame(f2);
                            if (sf.points().nbPoints() == 0 && sf.analogs().nbSubframes() == 0) continue;
                            if (sf.points().nbPoints() != fr.points().nbPoints() || sf.analogs().nbSubframes() != fr.analogs().nbSubframes()) uniform = false;
                        }
                        if (uniform) { out.undocumented = false; out.note += "|state-consistent"; }
                    }
                }
            }
        }
        else if (k == "selfsub") {
            // fdup <k> <mode> <j>: hand one of the object's own stored frames back to it (append / replace / extend)
            size_t n = obj->data().nbFrames();
            if (n == 0) { out.skipped = true; out.note = "no stored frame"; return out; }
            size_t src = static_cast<size_t>(op.arg(0) < 0 ? -op.arg(0) : op.arg(0)) % n;
            long long mode = (op.arg(1) < 0 ? -op.arg(1) : op.arg(1)) % 3;
            long long kk = op.arg(2) < 0 ? -op.arg(2) : op.arg(2);
            const ezc3d::DataNS::Frame &stored = obj->data().frame(src);
            { Shape s = shapeOf(*obj);
              bool shapeOk = stored.points().nbPoints() == s.nP && stored.analogs().nbSubframes() == (s.nC ? s.nSub : 0);
              if (!shapeOk) { out.skipped = true; out.note = "stored frame does not carry the declared shape (gap frame)"; return out; } }
            out.mutating = true;
            if (mode == 0) { out.note = "append|src=" + std::to_string(src); obj->frame(stored); }
            else if (mode == 1) { size_t idx = static_cast<size_t>(kk) % n; out.note = "replace " + std::to_string(idx) + "|src=" + std::to_string(src); obj->frame(stored, idx); }
            else { size_t idx = n + static_cast<size_t>(kk % 4); out.note = "extend " + std::to_string(idx) + "|src=" + std::to_string(src); obj->frame(stored, idx); }
        }
        else if (k == "pflip") {
            // pflip <g> <n> <vseed>: set a float parameter holding some +0.0, then take a COPY of it from the object, give it the same
            // values with the sign of every zero flipped (and the payload of NaNs untouched) and hand it back
            std::string grp = groupOf(op.arg(0)), name = namesUpper ? upper(paramNameOf(op.arg(1))) : paramNameOf(op.arg(1));
            Rng r(static_cast<uint64_t>(op.arg(2)));
            size_t n = 1 + r.below(6);
            std::vector<float> v1;
            for (size_t i2 = 0; i2 < n; ++i2) { uint32_t b = genFloatBits(r); float f = bitsToFloat(b); if (f != f) f = 1.5f; v1.push_back(i2 % 2 == 0 ? 0.0f : f); }
            ezc3d::ParametersNS::GroupNS::Parameter p1(name); p1.set(v1);
            out.mutating = true;
            obj->parameter(grp, p1);
            ezc3d::ParametersNS::GroupNS::Parameter p2(obj->parameters().group(grp).parameter(name));
            std::vector<float> v2 = v1; for (auto &f : v2) if (f == 0.0f) f = -f;
            p2.set(v2);
            obj->parameter(grp, p2);
            out.note = "flipped";
        }
        else if (k == "mandparam") {
            // directed reproductions only: replace a mandatory parameter by one of another type
            out.mutating = true;
            ezc3d::ParametersNS::GroupNS::Parameter p(op.arg(1) % 2 ? "RATE" : "USED");
            if (op.arg(1) % 2) p.set(std::vector<int>() = {100}); else p.set(std::vector<float>() = {3.f});
            obj->parameter(op.arg(0) % 2 ? "ANALOG" : "POINT", p);
        }
        else if (k == "pcol" || k == "acol" || k == "acolx") {
            // pcol <nameBase> <ncols> <dev> <vseed> ; dev: 0 none,1 empty vector,2 frames-1,3 frames+1,4 first frame empty,
            // 5 first name exists,6 second name exists,7 ragged (later frame one column short), 8 reuse last caller vector
            // acol additionally: 9 sub-1, 10 sub+1
            const bool isP = k == "pcol";
            Shape s = shapeOf(*obj);
            if (!isP && !gapIdx.empty() && hasAnalogGap(*obj, s) && openFindings.count("KF-GAPCOL") && k == "acol") {
                excluded["KF-GAPCOL"]++; out.skipped = true; out.note = "excluded: known finding KF-GAPCOL (channel column on a data set with empty gap frames)"; return out;
            }
            long long nb = op.arg(0) < 0 ? -op.arg(0) : op.arg(0);
            size_t ncols = static_cast<size_t>(1 + (op.arg(1) < 0 ? -op.arg(1) : op.arg(1)) % 3);
            long long dev = (op.arg(2) < 0 ? -op.arg(2) : op.arg(2)) % 15;     // 13: (acol) the last frame names the new channels differently; 14: (acol) two new columns share one name
            if (isP && dev >= 13) dev = 0;
            // (11: (acol) a later sub-frame of the last frame is one column short; 12: (pcol) a later frame carries a spare point behind the new ones)
            Rng r(static_cast<uint64_t>(op.arg(3)));
            std::vector<std::string> names;
            for (size_t j = 0; j < ncols; ++j) names.push_back(isP ? pointNameOf(500 + nb + static_cast<long long>(j)) : channelNameOf(500 + nb + static_cast<long long>(j)));
            const std::vector<std::string> &existing = isP ? s.plabels : s.alabels;
            out.note = "match";
            if (dev == 5 && !existing.empty()) { names[0] = existing[r.below(existing.size())]; out.note = "exists0"; }
            if (dev == 6 && !existing.empty() && ncols >= 2) { names[1] = existing[r.below(existing.size())]; out.note = "exists1"; }
            if (out.note == "match")
                for (size_t j = 0; j < names.size() && out.note == "match"; ++j)
                    for (auto &e : existing) if (rtrim(e) == names[j]) { out.note = "exists" + std::to_string(j); break; }
            if (!isP && dev == 14 && ncols >= 2 && out.note == "match") { names[1] = names[0]; out.note = "dupnew"; }
            size_t nF = s.nFrames;
            if (dev == 2 && nF > 0) { --nF; out.note = "frames-1"; }
            if (dev == 3) { ++nF; out.note = "frames+1"; }
            size_t nSub = s.nSub;
            if (!isP && dev == 9 && nSub > 0) { --nSub; out.note = "sub-1"; }
            if (!isP && dev == 10) { ++nSub; out.note = "sub+1"; }
            std::vector<ezc3d::DataNS::Frame> col;
            std::vector<SFrame> builtModel;
            if (dev == 8 && !lastCol.empty()) { col = lastCol; out.note = "reuse-caller-vector"; }
            else if (dev == 1) { out.note = "empty-vector"; }
            else {
                const bool reuseOneFrame = (static_cast<uint64_t>(op.arg(3)) % 3) == 1;   // g.add(content_f); column.push_back(g); with ONE frame object g
                ezc3d::DataNS::Frame reused;
                for (size_t f = 0; f < nF; ++f) {
                    ezc3d::DataNS::Frame fresh;
                    ezc3d::DataNS::Frame &fr = reuseOneFrame ? reused : fresh;
                    size_t cols = ncols;
                    if (dev == 4 && f == 0) { cols = 0; out.note = "first-empty"; }
                    if (dev == 7 && nF >= 2 && f == nF - 1 && ncols >= 1) { cols = ncols - 1; out.note = "ragged"; }
                    if (isP) {
                        ezc3d::DataNS::Points3dNS::Points pts;
                        for (size_t j = 0; j < cols; ++j) {
                            ezc3d::DataNS::Points3dNS::Point pt; pt.name(names[j]);
                            if (dev == 11 && nF >= 2 && f == nF - 1 && j == 0) { pt.name(names[j] + "_other"); out.note = "altname"; }   // a later frame spells the new name differently
                            fillPoint(pt, r); pts.point(pt);
                        }
                        const bool spare = dev == 12 && nF >= 2 && f == (nF == 2 ? 1 : nF / 2) && cols >= 1 && out.note == "match";
                        if (spare) { ezc3d::DataNS::Points3dNS::Point pt; pt.name("spare_point_of_the_caller"); fillPoint(pt, r); pts.point(pt); out.note = "spare"; }
                        fr.add(pts);
                        for (size_t j = 0; j < fr.points().nbPoints(); ++j) fr.points_nonConst().point_nonConst(j).residual(bitsToFloat(genFloatBits(r)));
                        if (spare) {     // intended content of this frame's new columns: the columns frame 0 declares, not the spare one
                            SFrame m = takeFrame(fr); m.pts.pop_back(); builtModel.push_back(m); col.push_back(fr); continue;
                        }
                    } else {
                        ezc3d::DataNS::AnalogsNS::Analogs an;
                        for (size_t sfi = 0; sfi < nSub; ++sfi) {
                            ezc3d::DataNS::AnalogsNS::SubFrame sf;
                            size_t colsHere = cols;
                            if (dev == 11 && nF >= 1 && f == nF - 1 && nSub >= 2 && sfi == nSub - 1 && cols >= 1) { colsHere = cols - 1; out.note = "ragged"; }
                            const bool otherNames = dev == 13 && nF >= 2 && f == nF - 1 && (out.note == "match" || out.note == "altname-channels");
                            if (otherNames) out.note = "altname-channels";
                            for (size_t j = 0; j < colsHere; ++j) { ezc3d::DataNS::AnalogsNS::Channel ch; ch.name(otherNames ? names[j] + "_other" : names[j]); ch.data(bitsToFloat(genFloatBits(r))); sf.channel(ch); }
                            an.subframe(sf);
                        }
                        fr.add(an);
                    }
                    builtModel.push_back(takeFrame(fr));      // the content intended for frame f, read before the caller's object is touched again
                    col.push_back(fr);
                }
            }
            lastCol = col;
            if (!(dev == 8 && !lastColModel.empty() && lastColModel.size() == lastCol.size())) { if (builtModel.size() == lastCol.size()) lastColModel = builtModel; else { lastColModel.clear(); for (auto &q3 : lastCol) lastColModel.push_back(takeFrame(q3)); } }
            out.mutating = true;
            if (isP) obj->point(lastCol); else obj->analog(lastCol);
            if (out.note == "altname" || out.note == "ragged") out.undocumented = true;    // accepted although the frames disagree: undocumented, the history ends
        }
        else if (k == "colmut") {
            // mutate the caller's column vector after it was handed over
            Rng r(static_cast<uint64_t>(op.arg(0)));
            for (auto &f : lastCol) {
                auto &P = f.points_nonConst(); for (size_t i = 0; i < P.nbPoints(); ++i) fillPoint(P.point_nonConst(i), r);
                auto &A = f.analogs_nonConst();
                for (size_t s = 0; s < A.nbSubframes(); ++s) for (size_t c = 0; c < A.subframe_nonConst(s).nbChannels(); ++c)
                    A.subframe_nonConst(s).channel_nonConst(c).data(bitsToFloat(genFloatBits(r)));
            }
            lastColModel.clear(); for (auto &q3 : lastCol) lastColModel.push_back(takeFrame(q3));
        }
        else if (k == "gapfill") {
            // replace every frame that does not carry the declared shape by a matching one
            Shape s = shapeOf(*obj);
            size_t filled = 0;
            for (size_t f = 0; f < obj->data().nbFrames(); ++f) {
                const auto &fr = obj->data().frame(f);
                bool complete = fr.points().nbPoints() == s.nP;
                size_t wantSub = s.nC ? s.nSub : 0;
                if (s.nC != 0 && fr.analogs().nbSubframes() != wantSub) complete = false;
                for (size_t k2 = 0; complete && k2 < fr.analogs().nbSubframes(); ++k2)
                    if (fr.analogs().subframe(k2).nbChannels() != s.nC) complete = false;
                if (complete) continue;
                std::string note;
                ezc3d::DataNS::Frame nf = buildFrame(s, 0, static_cast<uint64_t>(op.arg(0)) + f, note);
                out.mutating = true;
                obj->frame(nf, f);
                ++filled;
            }
            out.note = "filled " + std::to_string(filled);
        }
        else if (k == "resample") {
            // resample <k> <vseed>: the caller changes ANALOG:RATE to k x POINT:RATE and replaces every stored frame by one with k sub-frames
            // (same points and channels): the object is consistent again when the last frame has been replaced
            Shape s = shapeOf(*obj);
            const size_t n = obj->data().nbFrames();
            bool ok = s.nC > 0 && s.prate >= 1.f && n >= 1 && s.nSub >= 1 && gapIdx.empty() && s.plabels.size() == s.nP && !analogGroupEmpty;   // (every replacement must be acceptable: the operation is not atomic)
            for (size_t f = 0; ok && f < n; ++f) { const auto &fr = obj->data().frame(f); if (fr.points().nbPoints() != s.nP || fr.analogs().nbSubframes() != s.nSub) ok = false; }
            if (!ok) { out.skipped = true; out.note = "needs channels, rates and uniform frames"; return out; }
            size_t kNew = 1 + static_cast<size_t>(op.arg(0) < 0 ? -op.arg(0) : op.arg(0)) % 6; if (kNew == s.nSub) kNew = kNew % 6 + 1;
            if (kNew * s.nC > 65535) { out.skipped = true; return out; }
            out.mutating = true;
            ezc3d::ParametersNS::GroupNS::Parameter ar("RATE"); ar.set(std::vector<float>() = {s.prate * static_cast<float>(kNew)});
            obj->parameter("ANALOG", ar);
            Shape s2 = s; s2.nSub = kNew; s2.arate = s.prate * static_cast<float>(kNew); s2.nFrames = n;
            for (size_t f = 0; f < n; ++f) { std::string note; ezc3d::DataNS::Frame nf = buildFrame(s2, 0, static_cast<uint64_t>(op.arg(1)) + f * 3 + 1, note); obj->frame(nf, f); }
            for (int s3 = 0; s3 < 4; ++s3) slotAlias[s3] = -1;
            out.note = "sub-frames " + std::to_string(s.nSub) + "->" + std::to_string(kNew);
        }
        else if (k == "print") {
            NullBuf nb; std::streambuf *old = std::cout.rdbuf(&nb);
            try { obj->print(); } catch (...) { std::cout.rdbuf(old); throw; }
            std::cout.rdbuf(old);
        }
        else if ((k == "save" || k == "reload") && !uniqueModuloCase(*obj)) { out.skipped = true; out.note = "names that differ only by letter case collide in a file (names are stored upper-case): not saved"; }
        else if (k == "save") { lastSavePath = path("out_" + std::to_string(saves++) + ".c3d"); obj->write(lastSavePath); }
        else if (k == "reload") {
            lastSavePath = path("out_" + std::to_string(saves++) + ".c3d");
            obj->write(lastSavePath);
            std::unique_ptr<ezc3d::c3d> n(new ezc3d::c3d(lastSavePath));
            obj = std::move(n);
            namesUpper = true;
        }
        else if (k == "obs" || k == "look") {}
        else { out.skipped = true; out.note = "unknown op"; }
    } catch (...) {
        Outcome e = classifyCurrentException();
        e.mutating = out.mutating; e.note = out.note;
        return e;
    }
    return out;
}

} // namespace vf
