// Canonical trace of a case: outcome class and snapshot digest after every operation, digest of the finally saved file.
// No global state: safe to call from several threads on different scratch directories (C18), identical across builds (C19).
#pragma once
#include <functional>
#include "interp.hpp"
namespace vf {
struct TraceOpts {
    bool fullSnapshots = false;                       // include full snapshot text (C19) instead of digests
    std::function<void(size_t opIndex)> beforeOp;     // schedule perturbation hook (C18)
    std::function<void(const std::string &kind, bool begin)> ioMark;   // statistics only
    int pathStyle = 0; std::string pathTag;           // see Interp::path (C18: threads saving into one directory)
};
std::string traceOf(const Case &c, const std::string &scratch, const TraceOpts &o = TraceOpts());
}
