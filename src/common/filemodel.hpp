// Builds a reference-codec File from the integer 'f*' operations of a case (no ezc3d, no PBT library).
#pragma once
#include <set>
#include "case.hpp"
#include "refc3d.hpp"

namespace vf {

struct FileInfo {                 // classification of what the file exercises (for non-triviality rules / evidence)
    std::set<std::string> tags;
    size_t nPoints = 0, nChannels = 0, nSub = 0, nFrames = 0;
};

// Builds the well-formed file described by the f* ops. Ops other than f* are ignored.
ref::File buildFile(const std::vector<Op> &ops, FileInfo *info = nullptr);

// encode + apply corruption ops (trunc / poke / field / splice) found in the case; 'bytes' op overrides everything
std::vector<uint8_t> fileBytesOf(const std::vector<Op> &ops, FileInfo *info = nullptr, bool *corrupted = nullptr,
                                 bool *metaCorrupted = nullptr);

std::string fileGroupName(long long idx);
std::string fileParamName(long long idx);
float fileRate(long long idx);

} // namespace vf
