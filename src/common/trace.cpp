#include "trace.hpp"
#include "filemodel.hpp"
namespace vf {
namespace {
struct TL : Listener {
    std::string &out; const TraceOpts &o;
    TL(std::string &s, const TraceOpts &oo) : out(s), o(oo) {}
    void before(Interp &, const Op &op, size_t i) override {
        if (o.beforeOp) o.beforeOp(i);
        if (o.ioMark && (op.code == "save" || op.code == "reload" || op.code == "load")) o.ioMark(op.code, true);
    }
    void after(Interp &in, const Op &op, size_t i, const Outcome &oc) override {
        if (o.ioMark && (op.code == "save" || op.code == "reload" || op.code == "load")) o.ioMark(op.code, false);
        std::string st = snapText(takeSnap(in.o()), true);
        char buf[64]; snprintf(buf, sizeof buf, "%016llx", static_cast<unsigned long long>(fnv(st)));
        out += std::to_string(i) + " " + op.code + " " + (oc.skipped ? "skipped" : (oc.threw ? "threw:" + oc.cls : "ok")) + (op.code == "dimq" ? " " + oc.note : std::string()) + " " + buf + "\n";
        if (o.fullSnapshots && i % 4 == 0) out += st;
    }
};
}
std::string traceOf(const Case &c, const std::string &scratch, const TraceOpts &o) {
    std::string out;
    Interp in(scratch);
    in.pathStyle = o.pathStyle; in.pathTag = o.pathTag;
    in.openFindings = {"KF-D20", "KF-GAPCOL"};      // same exclusions for every build / thread
    TL L(out, o); in.L = &L;
    Case c2 = c;
    for (auto &op : c2.ops) if (op.code == "print") op.code = "obs";    // print touches the global std::cout
    try { in.run(c2); }
    catch (...) { Outcome e = classifyCurrentException(); out += "escaped:" + e.cls + "\n"; return out; }
    // final save (always attempted; the outcome class is part of the trace)
    const std::string p = in.path("trace_final.c3d");
    if (o.ioMark) o.ioMark("save", true);
    try {
        in.o().write(p);
        std::vector<uint8_t> b; readBytes(p, b);
        char buf[96]; snprintf(buf, sizeof buf, "saved %zu %016llx\n", b.size(), static_cast<unsigned long long>(fnv(std::string(b.begin(), b.end()))));
        out += buf;
    } catch (...) { Outcome e = classifyCurrentException(); out += "save threw:" + e.cls + "\n"; }
    if (o.ioMark) o.ioMark("save", false);
    return out;
}
}
