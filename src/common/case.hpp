// Case = a property id + list of abstract integer operations. Plain text (de)serialisation:
// this is the replay format; it bypasses every PBT library.
#pragma once
#include <cstdint>
#include <cstdio>
#include <fstream>
#include <sstream>
#include <string>
#include <vector>

namespace vf {

struct Op {
    std::string code;
    std::vector<long long> a;
    long long arg(size_t i, long long dflt = 0) const { return i < a.size() ? a[i] : dflt; }
    bool operator==(const Op &o) const { return code == o.code && a == o.a; }
};

struct Case {
    std::string prop;
    std::vector<Op> ops;
    bool operator==(const Case &o) const { return prop == o.prop && ops == o.ops; }
};

inline std::string toText(const Case &c) {
    std::ostringstream os;
    os << "property: " << c.prop << "\n";
    for (const Op &o : c.ops) {
        os << o.code;
        for (long long v : o.a) os << ' ' << v;
        os << "\n";
    }
    return os.str();
}

inline bool parseCase(const std::string &text, Case &out, std::string &err) {
    std::istringstream is(text);
    std::string line;
    out = Case();
    while (std::getline(is, line)) {
        size_t h = line.find('#');
        if (h != std::string::npos) line = line.substr(0, h);
        std::istringstream ls(line);
        std::string w;
        if (!(ls >> w)) continue;
        if (w == "property:") { ls >> out.prop; continue; }
        Op o; o.code = w;
        long long v;
        while (ls >> v) o.a.push_back(v);
        if (!ls.eof()) { err = "bad integer in line: " + line; return false; }
        out.ops.push_back(o);
    }
    if (out.prop.empty()) { err = "missing 'property:' line"; return false; }
    return true;
}

inline bool readFileText(const std::string &path, std::string &out) {
    std::ifstream f(path, std::ios::binary);
    if (!f) return false;
    std::ostringstream ss; ss << f.rdbuf(); out = ss.str();
    return true;
}
inline bool writeFileText(const std::string &path, const std::string &s) {
    std::ofstream f(path, std::ios::binary | std::ios::trunc);
    if (!f) return false;
    f << s; f.close();
    return bool(f);
}
inline bool readBytes(const std::string &path, std::vector<uint8_t> &out) {
    std::string s; if (!readFileText(path, s)) return false;
    out.assign(s.begin(), s.end()); return true;
}
inline bool writeBytes(const std::string &path, const std::vector<uint8_t> &b) {
    return writeFileText(path, std::string(b.begin(), b.end()));
}

// FNV-1a 64 digest of a string
inline uint64_t fnv(const std::string &s, uint64_t h = 1469598103934665603ULL) {
    for (unsigned char c : s) { h ^= c; h *= 1099511628211ULL; }
    return h;
}

} // namespace vf
