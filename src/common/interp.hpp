// Interpreter of abstract operation scripts over a real ezc3d::c3d (public API only).
#pragma once
#include <memory>
#include <set>
#include <string>
#include <vector>
#include "case.hpp"
#include "props.hpp"
#include "snap_take.hpp"
#include "ezc3d.h"

namespace vf {

struct Outcome {
    bool threw = false;
    std::string cls;     // "", "ios_failure", "out_of_range", "invalid_argument", "range_error", "runtime_error", "logic_error", "std_exception", "budget", "non_std"
    std::string what;
    bool skipped = false;   // op not applicable in this state (nothing was called)
    bool mutating = false;  // a public mutating call on the object was made
    std::string note;       // detail for listeners (e.g. deviation applied)
    bool undocumented = false;   // an argument deviating in a way the documentation does not promise to refuse was ACCEPTED: the history ends here
};

struct Shape {
    size_t nP = 0, nC = 0, nSub = 0, nFrames = 0;
    std::vector<std::string> plabels, alabels;
    float prate = 0, arate = 0;
};
Shape shapeOf(const ezc3d::c3d &c);

// names / tables shared with generators and models
std::string groupNameOf(long long g);
std::string paramNameOf(long long n);
std::string pointNameOf(long long n);
std::string channelNameOf(long long n);
float rateOf(long long r);
extern const int kNumRates;

// Builds a Parameter from the integer description of a 'param' op. Returns expected element count etc.
struct ParamSpec {
    std::string group, name, desc;
    int type = 0;                 // 0 int, 1 float, 2 string
    bool lock = false;
    std::vector<size_t> dims;     // explicit dims (empty => none given)
    std::vector<int> ints; std::vector<uint32_t> floats; std::vector<std::string> strs;
    size_t count = 0;
    bool consistent = true;       // element count matches the dims
    bool untyped = false, unnamed = false;
};
ParamSpec paramSpecOf(const Op &op);
bool uniqueModuloCase(const ezc3d::c3d &c);   // no two groups / parameters of one group differ only by letter case (they would collide in a file)

struct Interp;
struct Listener {
    virtual ~Listener() {}
    virtual void before(Interp &, const Op &, size_t) {}
    virtual void after(Interp &, const Op &, size_t, const Outcome &) {}
    bool stop = false;          // listener may end the case (e.g. after an undocumented-but-allowed outcome)
};

struct Interp {
    std::unique_ptr<ezc3d::c3d> obj;
    std::vector<ezc3d::DataNS::Frame> slots;
    long long slotAlias[4] = {-1, -1, -1, -1};       // index of the stored frame whose point / analog blocks the slot shares (copy of a stored frame), or -1
    std::set<size_t> gapIdx;                         // stored frames without sub-frames because the CALLER stored them so: left empty by an indexed add beyond the end, or a frame without analogs (class of KF-GAPCOL; frames read from a file never count)
    std::string slotDev[4];                          // deviation carried by each caller slot ("match" = none)
    bool namesUpper = false;                         // after a load, group/parameter names exist in upper case: the caller refers to them as such
    bool analogGroupEmpty = false;                   // object loaded from a file whose ANALOG group has no parameter
    ParamSpec specOf(const Op &op) const;
    std::string groupOf(long long g) const;
    bool halted = false;                             // history ended by an accepted undocumented deviation
    std::vector<ParamSpec> lastReuse;               // what each successive set() of 'preuse' asked for (one Parameter object reused)
    SParam lastSelfParam;                           // content of the object's own parameter handed back by 'selfparam' (taken before the call)
    std::vector<SFrame> lastColModel;               // content intended for each frame of lastCol (recorded while it was built)
    std::vector<ezc3d::DataNS::Frame> lastCol;       // caller's column vector of the last pcol/acol (kept for reuse)
    std::string dir;                                 // scratch directory (must exist)
    std::string propId;                              // property whose check runs the history (decides which known-finding classes are excluded)
    std::string lastSavePath;
    std::vector<uint8_t> fileBytes;                  // bytes used by the last 'load' op
    Listener *L = nullptr;
    int saves = 0;
    bool continueAfterConsistentDeviation = false;  // C07: an accepted deviating frame does not end the history when every filled frame and the header agree on the new shape
    bool allowUndeclaredFrames = false;          // C07 submits frames to objects with nothing declared
    const std::vector<Op> *caseOps = nullptr;    // all ops of the running case (file-model ops are read from here)
    size_t opsRun = 0;
    bool trace = false;

    explicit Interp(const std::string &scratchDir);
    explicit Interp(const RunCtx &ctx, const std::string &prop = "");     // exclusions of open findings that are declared harmless for `prop` are not applied
    std::set<std::string> openFindings;           // open known findings: their input classes are excluded by construction
    std::map<std::string, long long> excluded;    // how many operations were excluded per finding
    ~Interp();
    void run(const Case &c);
    Outcome exec(const Op &op);
    ezc3d::c3d &o() { return *obj; }
    // where the object's files go. style 0: <dir>/<stem>; 1: <dir>/<stem without extension>.<tag> (several users of one directory whose
    // paths differ only in the extension); 2: <dir>/<tag>_<stem without extension> (no extension at all; <dir> may contain a dot)
    int pathStyle = 0; std::string pathTag;
    std::string path(const std::string &stem) const {
        if (pathStyle == 0) return dir + "/" + stem;
        const std::string bare = stem.substr(0, stem.rfind('.'));
        return pathStyle == 1 ? dir + "/" + bare + "." + pathTag : dir + "/" + pathTag + "_" + bare;
    }
};

// classify the currently handled exception; call inside catch(...)
Outcome classifyCurrentException();

// mkdir -p style scratch dir unique to this process; removed at exit
std::string makeScratchDir(const std::string &tag);

} // namespace vf
