#include "refc3d.hpp"
#include <cstring>

namespace ref {

static void put8(std::vector<uint8_t> &b, int v) { b.push_back(static_cast<uint8_t>(v & 0xFF)); }
static void put16(std::vector<uint8_t> &b, unsigned v) { b.push_back(v & 0xFF); b.push_back((v >> 8) & 0xFF); }
static void put32(std::vector<uint8_t> &b, uint32_t v) { put16(b, v & 0xFFFF); put16(b, v >> 16); }

size_t rawSize(const Rec &r) {
    size_t n = static_cast<size_t>(r.type < 0 ? -r.type : r.type);
    for (int d : r.dims) n *= static_cast<size_t>(d);
    return n;
}

std::vector<uint8_t> encode(const File &f, std::vector<FieldLoc> *fields) {
    std::vector<uint8_t> b(f.zeros, 0);
    auto loc = [&](const char *kind, size_t size, int rec = -1) { if (fields) fields->push_back({kind, b.size(), size, rec}); };
    const size_t base = b.size();
    // ---- header (256 words) ----
    size_t sectionBlocks = 0;
    {
        // compute the size of the parameter section first (needed for the data start word)
        size_t len = 4;
        for (const Rec &r : f.recs) {
            len += 2 + r.name.size() + 2;
            if (r.isGroup) len += 1 + r.desc.size();
            else len += 2 + r.dims.size() + r.raw.size() + 1 + r.desc.size();
        }
        len += 1;  // at least one zero byte after the last record
        sectionBlocks = (len + 511) / 512;
    }
    const unsigned realDataStart = static_cast<unsigned>(f.paramBlock + sectionBlocks);
    loc("hdr.paramBlock", 1); put8(b, f.paramBlock);
    loc("hdr.key", 1); put8(b, 0x50);
    loc("hdr.nPoints", 2); put16(b, f.h.nPoints);
    loc("hdr.nAnalogMeas", 2); put16(b, f.h.nAnalogMeas);
    loc("hdr.first", 2); put16(b, f.h.first);
    loc("hdr.last", 2); put16(b, f.h.last);
    loc("hdr.maxGap", 2); put16(b, f.h.maxGap);
    loc("hdr.scale", 4); put32(b, f.h.scale);
    loc("hdr.dataStart", 2); put16(b, f.h.dataStart ? f.h.dataStart : realDataStart);
    loc("hdr.nSub", 2); put16(b, f.h.nSub);
    loc("hdr.rate", 4); put32(b, f.h.rate);
    for (int i = 13; i <= 147; ++i) put16(b, 0);
    loc("hdr.keyLabelPresent", 2); put16(b, f.h.keyLabelPresent);
    loc("hdr.firstBlockKeyLabel", 2); put16(b, f.h.firstBlockKeyLabel);
    loc("hdr.fourChar", 2); put16(b, f.h.fourChar);
    loc("hdr.nEvents", 2); put16(b, f.h.nEvents);
    put16(b, 0);
    loc("hdr.evTime", 72); for (int i = 0; i < 18; ++i) put32(b, f.h.evTime[i]);
    loc("hdr.evDisp", 18); for (int i = 0; i < 18; ++i) put8(b, f.h.evDisp[i]);
    put16(b, 0);
    loc("hdr.evLabel", 72); for (int i = 0; i < 18; ++i) for (int k = 0; k < 4; ++k) put8(b, f.h.evLabel[i][k]);
    for (int i = 235; i <= 256; ++i) put16(b, 0);
    // ---- filler blocks ----
    while (b.size() < base + 512u * static_cast<size_t>(f.paramBlock - 1)) b.push_back(f.fillerByte);
    // ---- parameter section ----
    const size_t sec = b.size();
    loc("par.first", 1); put8(b, f.zeroPrologue ? 0 : 1);
    loc("par.key", 1); put8(b, f.zeroPrologue ? 0 : 0x50);
    loc("par.blocks", 1); put8(b, f.nbParamBlocks >= 0 ? f.nbParamBlocks : static_cast<int>(sectionBlocks));
    loc("par.proc", 1); put8(b, f.procType);
    for (size_t i = 0; i < f.recs.size(); ++i) {
        const Rec &r = f.recs[i];
        const int ri = static_cast<int>(i);
        int nl = static_cast<int>(r.name.size());
        loc("rec.nameLen", 1, ri); put8(b, r.locked ? -nl : nl);
        loc("rec.id", 1, ri); put8(b, r.isGroup ? -r.id : r.id);
        for (char c : r.name) put8(b, c);
        const size_t offPos = b.size();
        loc("rec.next", 2, ri); put16(b, 0);
        if (!r.isGroup) {
            loc("rec.type", 1, ri); put8(b, r.type);
            loc("rec.ndims", 1, ri); put8(b, static_cast<int>(r.dims.size()));
            for (int d : r.dims) { loc("rec.dim", 1, ri); put8(b, d); }
            if (!r.raw.empty()) loc("rec.data", r.raw.size(), ri);
            b.insert(b.end(), r.raw.begin(), r.raw.end());
        }
        loc("rec.descLen", 1, ri); put8(b, static_cast<int>(r.desc.size()));
        for (char c : r.desc) put8(b, c);
        const bool last = (i + 1 == f.recs.size());
        unsigned off = static_cast<unsigned>(b.size() - offPos);
        if (last && f.termStyle == 0) off = 0;
        b[offPos] = off & 0xFF; b[offPos + 1] = (off >> 8) & 0xFF;
    }
    b.push_back(0);
    while ((b.size() - sec) % 512) b.push_back(0);
    // ---- data ----
    if (fields) fields->push_back({"data", b.size(), f.data.size() * 4, -1});
    for (uint32_t v : f.data) put32(b, v);
    return b;
}

// ------------------------------------------------------------------------------------------------
namespace {
struct Cur {
    const std::vector<uint8_t> &b; size_t p; bool bad = false;
    unsigned u8() { if (p + 1 > b.size()) { bad = true; return 0; } return b[p++]; }
    int s8() { unsigned v = u8(); return v >= 128 ? static_cast<int>(v) - 256 : static_cast<int>(v); }
    unsigned u16() { unsigned lo = u8(), hi = u8(); return lo | (hi << 8); }
    uint32_t u32() { uint32_t lo = u16(), hi = u16(); return lo | (hi << 16); }
    std::string str(size_t n) { if (p + n > b.size()) { bad = true; return ""; } std::string s(b.begin() + p, b.begin() + p + n); p += n; return s; }
};
}

Decoded decode(const std::vector<uint8_t> &bytes) {
    Decoded d;
    File &f = d.f;
    size_t z = 0;
    while (z < bytes.size() && bytes[z] == 0) ++z;
    if (z >= bytes.size()) { d.error = "no header"; return d; }
    f.zeros = z;
    if (bytes.size() < z + 512) { d.error = "header truncated"; return d; }
    Cur c{bytes, z};
    f.paramBlock = static_cast<int>(c.u8());
    if (c.u8() != 0x50) { d.error = "header key is not 0x50"; return d; }
    f.h.nPoints = c.u16(); f.h.nAnalogMeas = c.u16(); f.h.first = c.u16(); f.h.last = c.u16(); f.h.maxGap = c.u16();
    f.h.scale = c.u32(); f.h.dataStart = c.u16(); f.h.nSub = c.u16(); f.h.rate = c.u32();
    for (int i = 13; i <= 147; ++i) if (c.u16() != 0) d.notes.push_back("reserved header word " + std::to_string(i) + " not zero");
    f.h.keyLabelPresent = c.u16(); f.h.firstBlockKeyLabel = c.u16(); f.h.fourChar = c.u16(); f.h.nEvents = c.u16();
    if (c.u16() != 0) d.notes.push_back("reserved header word 152 not zero");
    for (int i = 0; i < 18; ++i) f.h.evTime[i] = c.u32();
    for (int i = 0; i < 18; ++i) f.h.evDisp[i] = static_cast<uint8_t>(c.u8());
    if (c.u16() != 0) d.notes.push_back("reserved header word 198 not zero");
    for (int i = 0; i < 18; ++i) for (int k = 0; k < 4; ++k) f.h.evLabel[i][k] = static_cast<char>(c.u8());
    for (int i = 235; i <= 256; ++i) if (c.u16() != 0) d.notes.push_back("reserved header word " + std::to_string(i) + " not zero");
    if (f.paramBlock < 2) { d.error = "parameter block < 2"; return d; }
    // ---- parameter section ----
    const size_t sec = z + 512u * static_cast<size_t>(f.paramBlock - 1);
    d.paramSectionOffset = sec;
    if (sec + 4 > bytes.size()) { d.error = "parameter section beyond end of file"; return d; }
    c.p = sec;
    unsigned b0 = c.u8(), b1 = c.u8();
    if (b0 == 0 && b1 == 0) f.zeroPrologue = true;
    else if (b1 != 0x50) { d.error = "parameter section key is not 0x50"; return d; }
    else if (b0 != 1) d.notes.push_back("parameter section first byte is " + std::to_string(b0));
    d.blockCountByte = static_cast<int>(c.u8());
    f.nbParamBlocks = d.blockCountByte;
    f.procType = static_cast<int>(c.u8());
    bool terminated = false;
    f.termStyle = 1;
    while (true) {
        if (c.p >= bytes.size()) { d.error = "parameter records run past end of file"; return d; }
        const size_t recStart = c.p;
        int nl = c.s8();
        if (nl == 0) { terminated = true; break; }
        Rec r;
        r.locked = nl < 0;
        int id = c.s8();
        if (id == 0) { d.error = "record with group id 0 at " + std::to_string(recStart); return d; }
        r.isGroup = id < 0; r.id = id < 0 ? -id : id;
        r.name = c.str(static_cast<size_t>(nl < 0 ? -nl : nl));
        const size_t offPos = c.p;
        unsigned off = c.u16();
        if (c.bad) { d.error = "record truncated"; return d; }
        if (!r.isGroup) {
            r.type = c.s8();
            if (r.type != -1 && r.type != 1 && r.type != 2 && r.type != 4) { d.error = "bad parameter type " + std::to_string(r.type); return d; }
            unsigned nd = c.u8();
            if (nd > 7) { d.error = "more than 7 dimensions"; return d; }
            for (unsigned i = 0; i < nd; ++i) r.dims.push_back(static_cast<int>(c.u8()));
            size_t n = rawSize(r);
            if (c.p + n > bytes.size()) { d.error = "parameter data run past end of file"; return d; }
            r.raw.assign(bytes.begin() + c.p, bytes.begin() + c.p + n); c.p += n;
        }
        unsigned dl = c.u8();
        r.desc = c.str(dl);
        if (c.bad) { d.error = "record truncated"; return d; }
        f.recs.push_back(r);
        d.lastRecordEnd = c.p;
        if (off == 0) { f.termStyle = 0; terminated = true; break; }
        if (offPos + off != c.p) {
            d.notes.push_back("record " + r.name + ": next-offset " + std::to_string(off) + " does not land on the end of the record (" +
                              std::to_string(c.p - offPos) + ")");
            c.p = offPos + off;   // the file's own pointer wins
        }
    }
    (void)terminated;
    // section length as declared by the block count
    d.paramSectionEnd = sec + 512u * static_cast<size_t>(d.blockCountByte);
    // find POINT:DATA_START
    {
        int pointId = -1;
        for (const Rec &r : f.recs) if (r.isGroup && r.name == "POINT") pointId = r.id;
        for (const Rec &r : f.recs)
            if (!r.isGroup && r.id == pointId && r.name == "DATA_START" && r.type == 2 && r.raw.size() >= 2)
                d.pointDataStart = r.raw[0] | (r.raw[1] << 8);
    }
    // ---- data section: header word 9 is the file's pointer ----
    if (f.h.dataStart < 1) { d.error = "data start word is 0"; d.ok = false; return d; }
    d.dataOffset = z + 512u * static_cast<size_t>(f.h.dataStart - 1);
    size_t nFrames = 0;
    if (f.h.nPoints != 0 || f.h.nAnalogMeas != 0) nFrames = (f.h.last >= f.h.first) ? f.h.last - f.h.first + 1 : 0;
    size_t want = nFrames * (4u * f.h.nPoints + f.h.nAnalogMeas);
    d.dataFloatsAvailable = d.dataOffset <= bytes.size() ? (bytes.size() - d.dataOffset) / 4 : 0;
    if (want > d.dataFloatsAvailable) d.notes.push_back("data section shorter than the header declares: want " + std::to_string(want) +
                                                        " floats, have " + std::to_string(d.dataFloatsAvailable));
    size_t n = want < d.dataFloatsAvailable ? want : d.dataFloatsAvailable;
    c.p = d.dataOffset; c.bad = false;
    f.data.resize(n);
    for (size_t i = 0; i < n; ++i) f.data[i] = c.u32();
    d.ok = true;
    return d;
}

// ------------------------------------------------------------------------------------------------
static int16_t le16(const std::vector<uint8_t> &raw, size_t i) { return static_cast<int16_t>(raw[2 * i] | (raw[2 * i + 1] << 8)); }

static vf::SParam paramContent(const Rec &r) {
    vf::SParam p;
    p.name = r.name; p.desc = r.desc; p.locked = r.locked; p.type = r.type;
    for (int d : r.dims) p.dims.push_back(static_cast<size_t>(d));
    if (r.type == -1) {
        // character data: first dimension is the string length, the others count strings
        if (r.dims.empty()) {            // scalar character
            p.dims.push_back(1);
            p.strs.push_back(vf::rtrim(std::string(r.raw.begin(), r.raw.end())));
        } else if (r.dims.size() == 1) {
            if (r.dims[0] != 0) p.strs.push_back(vf::rtrim(std::string(r.raw.begin(), r.raw.end())));
        } else {
            size_t len = static_cast<size_t>(r.dims[0]);
            size_t cnt = 1; for (size_t i = 1; i < r.dims.size(); ++i) cnt *= static_cast<size_t>(r.dims[i]);
            for (size_t k = 0; k < cnt; ++k) p.strs.push_back(vf::rtrim(std::string(r.raw.begin() + k * len, r.raw.begin() + (k + 1) * len)));
        }
    } else {
        if (r.dims.empty()) p.dims.push_back(1);   // scalar
        size_t n = rawSize(r) / static_cast<size_t>(r.type);
        for (size_t i = 0; i < n; ++i) {
            if (r.type == 1) p.ints.push_back(static_cast<int8_t>(r.raw[i]));
            else if (r.type == 2) p.ints.push_back(le16(r.raw, i));
            else { uint32_t v; std::memcpy(&v, &r.raw[4 * i], 4); p.floats.push_back(v); }
        }
    }
    return p;
}

vf::Snap contentOf(const File &f, std::string *why) {
    vf::Snap s;
    // groups are addressed by id; records may come in any order
    int maxId = 0;
    for (const Rec &r : f.recs) if (r.id > maxId) maxId = r.id;
    // ezc3d's documented convention: group table indexed by id (unnamed placeholders for unused ids)
    s.groups.resize(static_cast<size_t>(maxId));
    for (const Rec &r : f.recs) {
        vf::SGroup &g = s.groups[static_cast<size_t>(r.id - 1)];
        if (r.isGroup) { g.name = r.name; g.desc = r.desc; g.locked = r.locked; }
        else {
            vf::SParam p = paramContent(r);
            bool replaced = false;
            for (auto &e : g.params) if (e.name == p.name) { e = p; replaced = true; break; }
            if (!replaced) g.params.push_back(p);
        }
    }
    vf::SHeader &h = s.h;
    h.nb3dPoints = f.h.nPoints; h.nbAnalogsMeasurement = f.h.nAnalogMeas; h.nbAnalogByFrame = f.h.nSub;
    h.nbAnalogs = f.h.nSub ? f.h.nAnalogMeas / f.h.nSub : 0;
    h.firstFrame = static_cast<size_t>(f.h.first) - 1; h.lastFrame = static_cast<size_t>(f.h.last) - 1;
    h.nbFrames = (h.nb3dPoints == 0 && h.nbAnalogs == 0) ? 0 : h.lastFrame - h.firstFrame + 1;
    h.nbMaxInterpGap = f.h.maxGap; h.scaleFactor = static_cast<int>(static_cast<int32_t>(f.h.scale));
    h.dataStart = f.h.dataStart; h.frameRate = f.h.rate;
    h.keyLabelPresent = f.h.keyLabelPresent; h.firstBlockKeyLabel = f.h.firstBlockKeyLabel; h.fourCharPresent = f.h.fourChar;
    h.nbEvents = f.h.nEvents;
    for (int i = 0; i < 18; ++i) h.eventsTime.push_back(f.h.evTime[i]);
    for (int i = 0; i < 9; ++i) h.eventsDisplay.push_back(static_cast<size_t>(f.h.evDisp[2 * i]) | (static_cast<size_t>(f.h.evDisp[2 * i + 1]) << 8));
    for (int i = 0; i < 18; ++i) {
        std::string l(f.h.evLabel[i], f.h.evLabel[i] + 4);
        size_t z = l.find('\0'); if (z != std::string::npos) l.resize(z);
        h.eventsLabel.push_back(l);
    }
    h.zeros = f.zeros; h.parametersAddress = static_cast<size_t>(f.paramBlock); h.checksum = 0x50;
    s.parametersStart = 1; s.pchecksum = 0x50; s.nbParamBlock = static_cast<size_t>(f.nbParamBlocks < 0 ? 0 : f.nbParamBlocks);
    s.processorType = static_cast<size_t>(f.procType);
    // labels
    std::vector<std::string> plabels, alabels;
    for (const auto &g : s.groups) {
        if (g.name == "POINT") for (const auto &p : g.params) if (p.name == "LABELS" && p.type == -1) plabels = p.strs;
        if (g.name == "ANALOG") for (const auto &p : g.params) if (p.name == "LABELS" && p.type == -1) alabels = p.strs;
    }
    // frames
    const size_t per = 4u * h.nb3dPoints + h.nbAnalogsMeasurement;
    size_t nFrames = h.nbFrames;
    if (per && nFrames * per > f.data.size()) { if (why) *why = "data shorter than declared"; nFrames = f.data.size() / per; }
    s.frames.resize(nFrames);
    size_t k = 0;
    for (size_t fr = 0; fr < nFrames; ++fr) {
        vf::SFrame &F = s.frames[fr];
        F.pts.resize(h.nb3dPoints);
        for (size_t i = 0; i < h.nb3dPoints; ++i) {
            F.pts[i].name = i < plabels.size() ? plabels[i] : "unlabeled_point_" + std::to_string(i);
            for (int c = 0; c < 4; ++c) F.pts[i].v[c] = f.data[k++];
        }
        F.subs.resize(h.nbAnalogByFrame);
        for (size_t sf = 0; sf < h.nbAnalogByFrame; ++sf) {
            F.subs[sf].resize(h.nbAnalogs);
            for (size_t ch = 0; ch < h.nbAnalogs; ++ch) {
                F.subs[sf][ch].name = ch < alabels.size() ? alabels[ch] : "unlabeled_analog_" + std::to_string(ch);
                F.subs[sf][ch].v = f.data[k++];
            }
        }
    }
    return s;
}

} // namespace ref
