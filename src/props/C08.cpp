// C08 Stored data is independent of the caller's objects and of other frames.
#include "framemodel.hpp"
namespace vf {
const char *ntC08 = "non-trivial = history containing a resubmission of the same caller frame, or a caller-side mutation after a hand-over, followed by an observation; distinct by case text";
CaseResult runC08(const Case &c, RunCtx &ctx) {
    CaseResult r;
    Interp in(ctx, "C08");
    in.allowUndeclaredFrames = true;      // the frame list semantics hold for every data set, also one without declarations
    FrameModelListener L(r, true); in.L = &L;
    in.run(c);
    r.nontrivial = L.resubmits || L.mutationsObserved;
    if (L.resubmits) r.tags.insert("resubmission"); if (L.mutationsObserved) r.tags.insert("mutation-after-handover");
    if (L.columns) r.tags.insert("column"); if (L.declWithData) r.tags.insert("declare-with-data");
    r.counters["resubmissions"] = static_cast<long long>(L.resubmits); r.counters["mutations_observed"] = static_cast<long long>(L.mutationsObserved);
    for (auto &kv : in.excluded) r.counters["excluded:" + kv.first] += kv.second;
    return r;
}
}
