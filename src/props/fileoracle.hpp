// Oracles over files: (1) what ezc3d loads vs what the reference decoder extracts; (2) what ezc3d saves vs the object.
#pragma once
#include "invariants.hpp"
namespace vf {

inline ContentOpts fileContentOpts() { ContentOpts o; o.groupOrder = false; o.paramOrder = false; o.trimA = false; o.trimB = false; return o; }   // both sides must already be trimmed

// Loads `bytes` with ezc3d and compares with the reference decoder. Returns "" when equal.
// selfTestFailed is set when the reference encoder/decoder disagree with each other (harness problem, never a violation).
inline std::string checkLoadAgainstReference(const std::vector<uint8_t> &bytes, const std::string &path, std::unique_ptr<ezc3d::c3d> &obj,
                                             bool &selfTestFailed, std::string &selfMsg, vf::Snap *expectedOut = nullptr) {
    selfTestFailed = false;
    ref::Decoded d = ref::decode(bytes);
    if (!d.ok) { selfTestFailed = true; selfMsg = "reference decoder rejects the generated file: " + d.error; return ""; }
    if (!d.notes.empty()) { selfTestFailed = true; selfMsg = "reference decoder finds the generated file inconsistent: " + d.notes[0]; return ""; }
    Snap expect = ref::contentOf(d.f);
    if (expectedOut) *expectedOut = expect;
    writeBytes(path, bytes);
    try { obj.reset(new ezc3d::c3d(path)); }
    catch (...) { Outcome e = classifyCurrentException(); return "well-formed file refused: " + e.cls + ": " + e.what; }
    Snap got = takeSnap(*obj);
    std::string diff = diffContent(expect, got, fileContentOpts());
    if (!diff.empty()) return "loaded object differs from what the file encodes (reference vs ezc3d): " + diff;
    return "";
}

// Saves obj to path and checks the bytes with the reference decoder following only the file's own pointers.
inline std::string checkSavedFile(const ezc3d::c3d &obj, const std::string &path, std::vector<uint8_t> *bytesOut = nullptr, size_t *sectionLenMod512 = nullptr) {
    Snap mem = takeSnap(obj);
    try { obj.write(path); }
    catch (...) { Outcome e = classifyCurrentException(); return "write threw " + e.cls + ": " + e.what; }
    std::vector<uint8_t> b; if (!readBytes(path, b)) return "saved file cannot be read back";
    if (bytesOut) *bytesOut = b;
    ref::Decoded d = ref::decode(b);
    if (!d.ok) return "saved file cannot be decoded by following its own pointers: " + d.error;
    for (auto &n : d.notes) if (n.find("reserved header word") == std::string::npos) return "saved file is inconsistent: " + n;
    const ref::File &f = d.f;
    if (f.zeros != 0) return "saved file starts with zero bytes";
    if (b.size() < 1024) return "saved file shorter than header + one parameter block";
    if (b[d.paramSectionOffset + 1] != 0x50) return "parameter section key byte is not 0x50";
    if (f.procType != 84) return "processor type is " + std::to_string(f.procType) + ", expected 84 (Intel)";
    // exact block count: records + terminator fit, and no whole spare block
    if (sectionLenMod512) *sectionLenMod512 = (d.lastRecordEnd - d.paramSectionOffset) % 512;
    size_t used = d.lastRecordEnd - d.paramSectionOffset + 1;          // records + at least one terminator byte
    size_t needBlocks = (used + 511) / 512;
    if (static_cast<size_t>(d.blockCountByte) != needBlocks)
        return "parameter block count is " + std::to_string(d.blockCountByte) + " but the records (" + std::to_string(used) + " bytes with terminator) need " + std::to_string(needBlocks);
    if (d.paramSectionEnd > b.size()) return "parameter section runs past the end of the file";
    if (f.termStyle == 1 && b[d.lastRecordEnd] != 0) return "no terminator after the last record";
    for (size_t i = d.lastRecordEnd + (f.termStyle == 1 ? 0 : 0); i < d.paramSectionEnd; ++i) if (b[i] != 0) return "padding after the last record is not zero at offset " + std::to_string(i);
    // data start pointers
    const size_t realDataBlock = static_cast<size_t>(f.paramBlock) + needBlocks;   // 1-based
    if (f.h.dataStart != realDataBlock) return "header word 9 (data start) is " + std::to_string(f.h.dataStart) + " but the data section starts at block " + std::to_string(realDataBlock);
    {   // (an object loaded from a file without POINT:DATA_START keeps being without it: then there is nothing to point anywhere)
        const SParam *ds = findParam(mem, "POINT", "DATA_START");
        if (d.pointDataStart < 0 && ds && ds->type == 2) return "POINT:DATA_START missing in the saved file";
    }
    if (d.pointDataStart >= 0 && static_cast<size_t>(d.pointDataStart) != realDataBlock) return "POINT:DATA_START is " + std::to_string(d.pointDataStart) + " but the data section starts at block " + std::to_string(realDataBlock);
    // names upper case, locks as negative lengths (decoded into flags): compare with memory
    for (auto &r : f.recs) if (r.name != upper(r.name)) return "name stored in lower case: " + r.name;
    // header vs parameters
    Snap file = ref::contentOf(f);
    auto intP = [&](const char *g, const char *p, long long dflt) { const SParam *P = findParam(file, g, p); return (P && P->type == 2 && !P->ints.empty()) ? static_cast<long long>(P->ints[0]) : dflt; };
    auto fltP = [&](const char *g, const char *p) { const SParam *P = findParam(file, g, p); return (P && P->type == 4 && !P->floats.empty()) ? bitsToFloat(P->floats[0]) : 0.f; };
    if (static_cast<long long>(f.h.nPoints) != intP("POINT", "USED", -1)) return "header point count " + std::to_string(f.h.nPoints) + " != POINT:USED " + std::to_string(intP("POINT", "USED", -1));
    const size_t nFramesMem = mem.frames.size();
    size_t nFramesHdr = (f.h.nPoints || f.h.nAnalogMeas) ? static_cast<size_t>(f.h.last) - f.h.first + 1 : 0;
    if (nFramesMem && nFramesHdr != nFramesMem) return "header frame range " + std::to_string(f.h.first) + ".." + std::to_string(f.h.last) + " does not span the " + std::to_string(nFramesMem) + " stored frames";
    if (static_cast<unsigned long long>(intP("POINT", "FRAMES", -1) & 0xFFFF) != (nFramesMem & 0xFFFF)) return "POINT:FRAMES != stored frames";
    if (!(std::fabs(bitsToFloat(f.h.rate) - fltP("POINT", "RATE")) <= 1e-4f)) return "header rate != POINT:RATE";
    const long long aused = groupHasParams(file, "ANALOG") ? intP("ANALOG", "USED", 0) : 0;
    if (nFramesMem > 0) {
        if (aused > 0 && f.h.nSub > 0) {
            if (static_cast<long long>(f.h.nAnalogMeas) != aused * static_cast<long long>(f.h.nSub)) return "header analog samples per frame != ANALOG:USED x sub-frames";
        } else if (aused == 0 && f.h.nAnalogMeas != 0) return "header declares analog samples but ANALOG:USED is 0";
    }
    const bool scaleNegHdr = (f.h.scale & 0x80000000u) != 0;
    if (!scaleNegHdr) return "header scale word is not negative although the data are floats";
    if (!(fltP("POINT", "SCALE") < 0)) return "POINT:SCALE is not negative";
    // data length
    size_t perFrame = 4 * static_cast<size_t>(f.h.nPoints) + f.h.nAnalogMeas;
    size_t wantBytes = d.dataOffset + 4 * nFramesHdr * perFrame;
    if (b.size() != wantBytes) return "file length " + std::to_string(b.size()) + " != blocks before data + frames x (4 x points + channels x sub-frames) floats = " + std::to_string(wantBytes);
    // content decoded from the file equals the object in memory
    ContentOpts co; co.channelNames = false; co.trimA = true; co.trimB = false;
    std::string diff = diffContent(mem, file, co);
    if (!diff.empty()) return "content decoded from the saved file differs from the object (memory vs file): " + diff;
    return "";
}

} // namespace vf
