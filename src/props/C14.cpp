// C14 Saving is pure, repeatable and writes only defined bytes.
// In-process part: (a) the object is observably unchanged by write, (b) two saves are byte-identical.
// Cross-process part (driver): the same cases are run in two processes whose heap and stack are poisoned with different
// bytes; the digests of the saved files (written to VERIF_DIGEST_OUT) must be equal - a differing byte is an undefined byte.
#include "fileoracle.hpp"
#include <cstdlib>
namespace vf {
const char *ntC14 = "non-trivial = saved object has >=1 event label shorter than 4 characters, or >=1 padded string parameter, or >=1 frame; distinct by case text";

namespace {
__attribute__((noinline)) void paintStack(unsigned char byte) {
    volatile unsigned char pad[64 * 1024];
    for (size_t i = 0; i < sizeof pad; ++i) pad[i] = byte;
    asm volatile("" ::: "memory");
}
}

CaseResult runC14(const Case &c, RunCtx &ctx) {
    CaseResult r;
    Interp in(ctx, "C14");
    const char *sb0 = getenv("VERIF_STACK_BYTE");
    struct Painter : Listener { unsigned char b; void before(Interp &, const Op &, size_t) override { paintStack(b); } } painter;
    painter.b = sb0 ? static_cast<unsigned char>(atoi(sb0)) : 0xA5;
    in.L = &painter;     // the stack is painted before EVERY operation: a value read from an uninitialised local differs between the two poison processes
    in.run(c);
    std::string why;
    // purity / repeatability / definedness are demanded of EVERY reachable object, also of objects whose frames do not all carry
    // the declared shape (gap frames, accepted deviating frames); only objects whose save is refused (beyond capacity) are skipped
    Snap a = takeSnap(in.o());
    if (!framesComplete(in.o(), &why)) r.tags.insert("frames-not-uniform");
    const char *sb = getenv("VERIF_STACK_BYTE");
    const unsigned char stackByte = sb ? static_cast<unsigned char>(atoi(sb)) : 0xA5;
    const std::string p1 = in.path("c14_a.c3d"), p2 = in.path("c14_b.c3d");
    try { paintStack(stackByte); in.o().write(p1); }
    catch (...) { Outcome e = classifyCurrentException();
        if (e.cls == "range_error") { r.tags.insert("save-refused-beyond-capacity"); return r; }
        r.fail("write threw " + e.cls + ": " + e.what); return r; }
    Snap b = takeSnap(in.o());
    std::string d = diffIdentical(a, b);
    if (!d.empty()) { r.fail("saving changed the object: " + d); return r; }
    try { paintStack(static_cast<unsigned char>(stackByte ^ 0xFF)); in.o().write(p2); }
    catch (...) { Outcome e = classifyCurrentException(); r.fail("second write threw " + e.cls + ": " + e.what); return r; }
    std::vector<uint8_t> b1, b2; readBytes(p1, b1); readBytes(p2, b2);
    if (b1 != b2) {
        size_t k = 0; while (k < b1.size() && k < b2.size() && b1[k] == b2[k]) ++k;
        r.fail("two saves of the same object differ at offset " + std::to_string(k) + " (sizes " + std::to_string(b1.size()) + "/" + std::to_string(b2.size()) + ")");
        return r;
    }
    d = diffIdentical(a, takeSnap(in.o()));
    if (!d.empty()) { r.fail("the second save changed the object: " + d); return r; }
    {   // saving over an existing, longer file must give the same bytes: nothing of the old file may survive
        const std::string p3 = in.path("c14_over.c3d");
        writeBytes(p3, std::vector<uint8_t>(b1.size() + 1500, 0xEE));
        try { in.o().write(p3); } catch (...) { Outcome e = classifyCurrentException(); r.fail("save over an existing file threw " + e.cls); return r; }
        std::vector<uint8_t> b3; readBytes(p3, b3);
        if (b3 != b1) { r.fail("saving over an existing longer file gives " + std::to_string(b3.size()) + " bytes instead of " + std::to_string(b1.size()) + ": bytes of the previous file survive in the output"); return r; }
    }
    {   // equal objects give equal files whatever else the process saved in between: a different, rich object (18 header events with
        // 4-character labels, long names and descriptions, points and channels) is loaded and saved, then the object is saved again
        static const char *otherText =
            "property: C14\nflayout 0 2 0 0 170 0\nfshape 5 3 2 4 7 9 0 0 77 0\nfhdr 65535 65535 65535 65535 18 4242 0\nfids 0 1 3\n"
            "fgroup 5 3 200 1\nfgroup 6 7 255 0\nfparam 3 2 3 2 40 6 0 0 0 0 0 91 255 1\nfparam 4 3 1 2 9 9 0 0 0 0 0 92 100 0\nfparam 0 5 2 1 100 0 0 0 0 0 0 93 7 0\nforder 5 0\nload\n";
        Case oc; std::string err;
        if (parseCase(otherText, oc, err)) {
            try {
                std::vector<uint8_t> ob = fileBytesOf(oc.ops, nullptr);
                const std::string po = in.path("c14_other_in.c3d"), po2 = in.path("c14_other_out.c3d");
                writeBytes(po, ob);
                ezc3d::c3d other(po);
                other.write(po2);
                r.tags.insert("another-object-saved-in-between");
            } catch (...) { r.tags.insert("other-object-unavailable"); }
            const std::string p4 = in.path("c14_again.c3d");
            try { in.o().write(p4); } catch (...) { Outcome e = classifyCurrentException(); r.fail("save after another object was saved threw " + e.cls); return r; }
            std::vector<uint8_t> b4; readBytes(p4, b4);
            if (b4 != b1) {
                size_t k = 0; while (k < b1.size() && k < b4.size() && b1[k] == b4[k]) ++k;
                r.fail("the same object saved before and after ANOTHER object was loaded and saved gives different files (offset " + std::to_string(k) + ", sizes " + std::to_string(b1.size()) + "/" + std::to_string(b4.size()) + "): the output depends on what the process saved earlier");
                return r;
            }
        }
    }
    // digest for the cross-process comparison
    if (const char *out = getenv("VERIF_DIGEST_OUT")) {
        FILE *f = fopen(out, "a");
        if (f) {
            fprintf(f, "%016llx %016llx %zu\n", static_cast<unsigned long long>(fnv(toText(c))), static_cast<unsigned long long>(fnv(std::string(b1.begin(), b1.end()))), b1.size());
            fclose(f);
        }
        if (const char *keep = getenv("VERIF_KEEP_DIR")) {
            char name[64]; snprintf(name, sizeof name, "/%016llx.c3d", static_cast<unsigned long long>(fnv(toText(c))));
            writeBytes(std::string(keep) + name, b1);
        }
    }
    size_t shortLabels = 0, padded = 0;
    for (size_t i = 0; i < a.h.eventsLabel.size(); ++i) if (a.h.eventsLabel[i].size() < 4) ++shortLabels;
    for (auto &g : a.groups) for (auto &p : g.params) if (p.type == -1 && !p.dims.empty()) for (auto &s : p.strs) if (s.size() < p.dims[0]) ++padded;
    r.nontrivial = shortLabels || padded || !a.frames.empty();
    if (shortLabels) r.tags.insert("short-event-labels"); if (padded) r.tags.insert("padded-strings"); if (!a.frames.empty()) r.tags.insert("frames");
    bool loaded = false; for (auto &o : c.ops) if (o.code == "load" || o.code == "reload") loaded = true;
    r.tags.insert(loaded ? "loaded-object" : "constructed-object");
    return r;
}
}
