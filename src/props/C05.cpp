// C05 Header, POINT/ANALOG parameters and stored data always agree (checked after every step).
#include "invariants.hpp"
namespace vf {
const char *ntC05 = "non-trivial = history with a declaration (declp/decla/pcol/acol accepted) after data exists, or an edit after a reload, or a rate change after frames exist; distinct by case text";

namespace {
struct L05 : Listener {
    CaseResult &r; size_t checks = 0; bool declAfterData = false, editAfterReload = false, rateAfterFrames = false, reloaded = false;
    bool extendOnEmpty = false, permSubmitted = false, named = true;
    std::set<size_t> gaps;      // frames left empty by an indexed add beyond the end (not 'filled' frames)
    size_t preFrames = 0;
    explicit L05(CaseResult &rr) : r(rr) {}
    void before(Interp &in, const Op &op, size_t) override {
        preFrames = in.o().data().nbFrames();
        if ((op.code == "fsubx" || op.code == "fsub") && in.slotDev[static_cast<size_t>((op.arg(0) < 0 ? -op.arg(0) : op.arg(0)) % 4)] == "perm") permSubmitted = true;
        if ((op.code == "fsubx" || op.code == "fsub") && in.o().data().nbFrames() == 0 && (op.arg(1) < 0 ? -op.arg(1) : op.arg(1)) % 3 == 2) extendOnEmpty = true;
    }
    void after(Interp &in, const Op &op, size_t i, const Outcome &o) override {
        if (o.undocumented) {
            // the call was accepted although the frame deviates in a way the documentation is silent about; the history ends here. The call was
            // "successful" all the same: when every filled frame now has one and the same shape, the three views can and must still agree
            r.tags.insert("ended-by-undocumented-accepted-deviation"); stop = true;
            if (o.note.rfind("replace", 0) == 0) gaps.erase(static_cast<size_t>(atoll(o.note.c_str() + 8)));
            Snap s = takeSnap(in.o());
            bool uniform = true; const SFrame *ref = nullptr;
            for (size_t f = 0; f < s.frames.size() && uniform; ++f) {
                const SFrame &F = s.frames[f];
                if ((F.pts.empty() && F.subs.empty()) || gaps.count(f)) continue;
                for (auto &sf : F.subs) if (sf.size() != F.subs[0].size()) uniform = false;
                if (!ref) { ref = &F; continue; }
                if (F.pts.size() != ref->pts.size() || F.subs.size() != ref->subs.size() || (!F.subs.empty() && F.subs[0].size() != ref->subs[0].size())) uniform = false;
            }
            if (uniform && ref && o.note.rfind("extend", 0) != 0) {
                ++checks; r.tags.insert("agreement-checked-after-accepted-deviation");
                std::string m = checkAgreement(s, false, &gaps);
                if (!m.empty()) { r.fail("after op " + std::to_string(i) + " (" + op.code + ", accepted with an undocumented deviation, all filled frames of one shape): " + m); if (extendOnEmpty) r.knownFinding = "KF-D20"; }
            }
            return;
        }
        if (o.skipped) return;
        if (!o.threw) {
            if (o.note.rfind("extend", 0) == 0) { size_t idx = static_cast<size_t>(atoll(o.note.c_str() + 7)); for (size_t g = preFrames; g < idx; ++g) gaps.insert(g); }
            if (o.note.rfind("replace", 0) == 0) gaps.erase(static_cast<size_t>(atoll(o.note.c_str() + 8)));
            if (op.code == "reload" || op.code == "new" || op.code == "load") gaps.clear();
            if (op.code == "gapfill") gaps.clear();
        }
        Snap s = takeSnap(in.o());
        ++checks;
        if (op.code == "load" && !o.threw) {
            // a loaded file may hold fewer or more labels than points in use (vendor layout): the per-entry label clauses of C05 speak of
            // points and channels "declared by name" and do not apply to such an object
            Shape sh = shapeOf(in.o());
            if (sh.plabels.size() != sh.nP || sh.alabels.size() != sh.nC) named = false;
        }
        std::string m = checkAgreement(s, named, &gaps, (op.code == "load" || op.code == "reload") && !o.threw);   // right after a load every frame came from the file
        if (!m.empty()) {
            r.fail("after op " + std::to_string(i) + " (" + op.code + (o.threw ? ", refused with " + o.cls : "") + "): " + m);
            if (extendOnEmpty) r.knownFinding = "KF-D20";
            else if (permSubmitted && m.rfind("I5", 0) == 0) r.knownFinding = "KF-D21";
            stop = true; return;
        }
        bool hasData = !s.frames.empty();
        if (!o.threw && o.mutating) {
            if (hasData && (op.code == "declp" || op.code == "decla" || op.code == "pcol" || op.code == "acol")) declAfterData = true;
            if (reloaded) editAfterReload = true;
            if (hasData && (op.code == "prate" || op.code == "arate")) rateAfterFrames = true;
        }
        if (op.code == "reload" && !o.threw) reloaded = true;
    }
};
}

CaseResult runC05(const Case &c, RunCtx &ctx) {
    CaseResult r;
    Interp in(ctx, "C05");
    L05 L(r); in.L = &L;
    in.run(c);
    r.counters["invariant_checks"] = static_cast<long long>(L.checks);
    for (auto &kv : in.excluded) r.counters["excluded:" + kv.first] += kv.second;
    r.nontrivial = L.declAfterData || L.editAfterReload || L.rateAfterFrames;
    if (L.declAfterData) r.tags.insert("decl-after-data");
    if (L.editAfterReload) r.tags.insert("edit-after-reload");
    if (L.rateAfterFrames) r.tags.insert("rate-after-frames");
    if (in.o().data().nbFrames()) r.tags.insert("frames"); else r.tags.insert("no-frames");
    return r;
}
}
