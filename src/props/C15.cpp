// C15 A save that did not reach the disk is reported (fault enumeration).
#include "fileoracle.hpp"
#include <csignal>
#include <sys/resource.h>
#include <sys/stat.h>
#include <unistd.h>
#include <dlfcn.h>
#include <sys/uio.h>
#include <cerrno>
// Fault injection at the level of the OS call (g++/ASan harness only): the n-th write()/writev() of a save is refused once with ENOSPC.
// Unlike RLIMIT_FSIZE this also reaches the writes that go BACK into the file (the header / parameter back-patches at offsets 16, 514, ...).
#if defined(__SANITIZE_ADDRESS__) && !defined(__clang__)
#define VF_C15_WRITE_HOOK 1
namespace { volatile int g_wArmed = 0; volatile long g_wCount = 0, g_wFailAt = -1; }
extern "C" ssize_t write(int fd, const void *buf, size_t n) {
    typedef ssize_t (*fn)(int, const void *, size_t);
    static fn real = reinterpret_cast<fn>(dlsym(RTLD_NEXT, "write"));
    if (g_wArmed && fd > 2) { long i = g_wCount++; if (i == g_wFailAt) { errno = ENOSPC; return -1; } }
    return real(fd, buf, n);
}
extern "C" ssize_t writev(int fd, const struct iovec *iov, int cnt) {
    typedef ssize_t (*fn)(int, const struct iovec *, int);
    static fn real = reinterpret_cast<fn>(dlsym(RTLD_NEXT, "writev"));
    if (g_wArmed && fd > 2) { long i = g_wCount++; if (i == g_wFailAt) { errno = ENOSPC; return -1; } }
    return real(fd, iov, cnt);
}
#endif
namespace vf {
const char *ntC15 = "non-trivial = injected fault that strikes after at least one byte of the output was accepted (RLIMIT_FSIZE = k >= 1, /dev/full); distinct by (object, fault kind, offset)";

namespace {
struct Attempt { bool threw = false; std::string cls, what; };
Attempt tryWrite(const ezc3d::c3d &o, const std::string &path) {
    Attempt a;
    try { o.write(path); } catch (...) { Outcome e = classifyCurrentException(); a.threw = true; a.cls = e.cls; a.what = e.what; }
    return a;
}
void setFsize(rlim_t soft) { struct rlimit rl; getrlimit(RLIMIT_FSIZE, &rl); rl.rlim_cur = soft; setrlimit(RLIMIT_FSIZE, &rl); }
// one-shot fault: the first write that cannot place a single byte below the limit fails with EFBIG and raises SIGXFSZ; the handler lifts
// the limit, so every later write succeeds again (a disk that was full for a moment)
volatile sig_atomic_t g_oneShotFired = 0;
void liftLimit(int) { g_oneShotFired = 1; struct rlimit rl; getrlimit(RLIMIT_FSIZE, &rl); rl.rlim_cur = RLIM_INFINITY; setrlimit(RLIMIT_FSIZE, &rl); }
}

CaseResult runC15(const Case &c, RunCtx &ctx) {
    CaseResult r;
    Interp in(ctx, "C15");
    in.run(c);
    std::string why;
    if (!framesComplete(in.o(), &why)) { r.tags.insert("incomplete-at-save"); return r; }
    if (!withinCapacity(takeSnap(in.o()), &why)) { r.tags.insert("beyond-capacity"); return r; }
    const ezc3d::c3d &o = in.o();
    const std::string good = in.path("c15_ok.c3d");
    Attempt a0 = tryWrite(o, good);
    if (a0.threw) { r.fail("fault-free save threw " + a0.cls + ": " + a0.what); return r; }
    std::vector<uint8_t> ref; readBytes(good, ref);
    const size_t N = ref.size();
    long long faults = 0, afterFirstByte = 0;
    std::map<std::string, long long> classes;
    auto expectThrow = [&](const Attempt &a, const std::string &what) -> bool {
        ++faults;
        if (!a.threw) { r.fail("write returned normally although " + what); return false; }
        if (a.cls == "non_std") { r.fail("write threw a non-standard exception when " + what); return false; }
        classes[a.cls]++;
        return true;
    };
    // ---- destinations that cannot be opened ----
    if (!expectThrow(tryWrite(o, in.path("no_such_dir/out.c3d")), "the directory of the destination does not exist")) return r;
    if (!expectThrow(tryWrite(o, good + "/out.c3d"), "the destination path goes through a regular file")) return r;
    if (!expectThrow(tryWrite(o, in.dir), "the destination is a directory")) return r;
    {
        const std::string ro = in.path("readonly.c3d");
        writeBytes(ro, std::vector<uint8_t>{1, 2, 3});
        chmod(ro.c_str(), 0444);
        chmod(in.dir.c_str(), 0777);
        bool dropped = geteuid() != 0 || seteuid(65534) == 0;
        if (dropped) {
            Attempt a = tryWrite(o, ro);
            if (geteuid() != 0) { if (seteuid(0) != 0) { r.v = CaseResult::DISCARD; r.msg = "cannot restore euid"; return r; } }
            if (!expectThrow(a, "the destination is a read-only file")) return r;
            r.tags.insert("read-only-target");
        }
        chmod(ro.c_str(), 0644);
    }
    // ---- device full ----
    { Attempt a = tryWrite(o, "/dev/full"); ++afterFirstByte; if (!expectThrow(a, "the device is full (/dev/full)")) return r; }
    // ---- size limit hit at offset k ----
    std::vector<size_t> offsets;
    if (N <= 6000 || (ctx.tier && N <= 20000)) for (size_t k = 0; k < N; ++k) offsets.push_back(k);
    else {
        const size_t step = ctx.tier ? 7 : 97;
        for (size_t k = 0; k < N; k += step) offsets.push_back(k);
        for (size_t b = 512; b < N; b += 512) for (long d = -1; d <= 1; ++d) offsets.push_back(b + static_cast<size_t>(d));
        for (size_t b = 8191; b < N; b += 8191) { offsets.push_back(b - 1); offsets.push_back(b); offsets.push_back(b + 1); }
        for (size_t b = 4096; b < N; b += 4096) { offsets.push_back(b - 1); offsets.push_back(b + 1); }
        offsets.push_back(N - 1); offsets.push_back(N - 2);
    }
    signal(SIGXFSZ, SIG_IGN);
    const std::string lim = in.path("c15_lim.c3d");
    for (size_t k : offsets) {
        if (k >= N) continue;
        setFsize(static_cast<rlim_t>(k));
        Attempt a = tryWrite(o, lim);
        setFsize(RLIM_INFINITY);
        if (k >= 1) ++afterFirstByte;
        if (!expectThrow(a, "the file size limit was hit at offset " + std::to_string(k) + " of " + std::to_string(N) + " (replay: same case; RLIMIT_FSIZE=" + std::to_string(k) + ")")) return r;
    }
    // ---- one write refused at offset k, every later write accepted (transient fault) ----
    // the save must either throw or, if it returns normally, have produced the complete file
    long long transient = 0, transientThrown = 0;
    {
        std::vector<size_t> toffs;
        if (N <= 3000) for (size_t k = 1; k < N; ++k) toffs.push_back(k);
        else {
            for (size_t k = 1; k < 2048 && k < N; k += 3) toffs.push_back(k);
            for (size_t k = 2048; k < N; k += (ctx.tier ? 61 : 509)) toffs.push_back(k);
            for (size_t b = 512; b < N; b += 512) { toffs.push_back(b - 1); toffs.push_back(b); toffs.push_back(b + 1); }
            for (size_t b = 8191; b < N; b += 8191) { toffs.push_back(b); toffs.push_back(b + 1); }
            toffs.push_back(N - 1);
        }
        const std::string tp = in.path("c15_transient.c3d");
        for (size_t k : toffs) {
            if (k >= N) continue;
            remove(tp.c_str());
            g_oneShotFired = 0;
            signal(SIGXFSZ, liftLimit);
            setFsize(static_cast<rlim_t>(k));
            Attempt a = tryWrite(o, tp);
            setFsize(RLIM_INFINITY);
            signal(SIGXFSZ, SIG_IGN);
            ++transient; ++faults; ++afterFirstByte;
            if (a.threw) { ++transientThrown; classes[a.cls]++; if (a.cls == "non_std") { r.fail("write threw a non-standard exception on a transient fault"); return r; } continue; }
            std::vector<uint8_t> b; readBytes(tp, b);
            if (b != ref) {
                r.fail("write returned normally although one write was refused at offset " + std::to_string(k) + " of " + std::to_string(N) + " (transient fault: later writes were accepted) and the file on disk is not the complete file (" + std::to_string(b.size()) + " bytes" + (g_oneShotFired ? "" : ", limit never hit") + ")");
                return r;
            }
        }
    }
#ifdef VF_C15_WRITE_HOOK
    // ---- the n-th OS write of the save refused once (ENOSPC), every other one accepted ----
    {
        const std::string wp = in.path("c15_nth.c3d");
        g_wCount = 0; g_wFailAt = -1; g_wArmed = 1;
        Attempt c0 = tryWrite(o, wp);
        g_wArmed = 0;
        const long W = g_wCount;
        long long nth = 0, nthThrown = 0;
        if (!c0.threw && W > 0) {
            const long stride = (W <= 1500 || ctx.tier) ? 1 : (W / 1500 + 1);
            for (long n = 0; n < W; n += stride) {
                remove(wp.c_str());
                g_wCount = 0; g_wFailAt = n; g_wArmed = 1;
                Attempt a = tryWrite(o, wp);
                g_wArmed = 0; g_wFailAt = -1;
                ++nth; ++faults; ++afterFirstByte; ++transient;
                if (a.threw) { ++nthThrown; ++transientThrown; classes[a.cls]++; if (a.cls == "non_std") { r.fail("write threw a non-standard exception when one OS write was refused"); return r; } continue; }
                std::vector<uint8_t> b; readBytes(wp, b);
                if (b != ref) {
                    r.fail("write returned normally although OS write number " + std::to_string(n) + " of " + std::to_string(W) + " was refused once (ENOSPC; every other write accepted) and the file on disk is not the complete file (" + std::to_string(b.size()) + " of " + std::to_string(N) + " bytes)");
                    return r;
                }
            }
        }
        r.counters["nth_write_faults"] = nth; r.counters["nth_write_faults_reported_by_exception"] = nthThrown;
    }
#endif
    r.counters["transient_faults"] = transient; r.counters["transient_faults_reported_by_exception"] = transientThrown;
    // ---- no fault: returns normally with the full content ----
    {
        Attempt a = tryWrite(o, lim);
        if (a.threw) { r.fail("save without fault threw " + a.cls + " after the fault series: " + a.what); return r; }
        std::vector<uint8_t> b; readBytes(lim, b);
        if (b != ref) { r.fail("save without fault produced different bytes after the fault series"); return r; }
    }
    r.nontrivial = afterFirstByte > 0;
    r.counters["faults_injected"] = faults; r.counters["faults_after_first_byte"] = afterFirstByte; r.counters["output_bytes"] = static_cast<long long>(N);
    for (auto &kv : classes) r.counters["reported_as:" + kv.first] += kv.second;
    r.tags.insert(N <= 6000 ? "every-offset" : "sampled-offsets");
    r.tags.insert(N < 2000 ? "size<2KB" : (N < 40000 ? "size<40KB" : "size>=40KB"));
    return r;
}
}
