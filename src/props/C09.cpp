// C09 Parameter and group edits change exactly what was asked.
#include "prophelp.hpp"
namespace vf {
const char *ntC09 = "non-trivial = history with a replacement of an existing parameter, or a parameter with >=3 dimensions, or a refused Parameter::set; distinct by case text";

namespace {
std::string groupsText(const std::vector<SGroup> &g) {
    Snap s; s.groups = g; std::string t = snapText(s, false);
    return t.substr(t.find('\n') + 1);   // drop the header line
}
SParam expectedParam(const ParamSpec &sp) {
    SParam p; p.name = sp.name; p.desc = sp.desc; p.locked = sp.lock;
    if (sp.type == 0) { p.type = 2; p.ints = sp.ints; }
    else if (sp.type == 1) { p.type = 4; p.floats = sp.floats; }
    else { p.type = -1; p.strs = sp.strs; }
    std::vector<size_t> d = sp.dims.empty() ? std::vector<size_t>{sp.count} : sp.dims;
    if (sp.type == 2) { size_t ml = 0; for (auto &s : sp.strs) ml = std::max(ml, s.size()); d.insert(d.begin(), ml); }
    p.dims = d;
    return p;
}
struct L09 : Listener {
    CaseResult &r; std::vector<SGroup> pre; size_t replaced = 0, multi = 0, setRefused = 0, created = 0, locks = 0, appended = 0, selfHanded = 0, dimQueries = 0, reused = 0;
    explicit L09(CaseResult &rr) : r(rr) {}
    void before(Interp &in, const Op &, size_t) override { pre = takeSnap(in.o()).groups; }
    void fail(size_t i, const Op &op, const std::string &m) { r.fail("op " + std::to_string(i) + " (" + op.code + "): " + m); stop = true; }
    void after(Interp &in, const Op &op, size_t i, const Outcome &o) override {
        if (o.skipped) return;
        const std::string &k = op.code;
        if (k == "pflip" && !o.threw) {
            // expected: the parameter holds exactly the second set of values (zeros negated), everything else untouched
            std::string grp = in.groupOf(op.arg(0)), name = in.namesUpper ? upper(paramNameOf(op.arg(1))) : paramNameOf(op.arg(1));
            Rng r(static_cast<uint64_t>(op.arg(2)));
            size_t n = 1 + r.below(6);
            SParam ep; ep.name = name; ep.type = 4; ep.dims = {n};
            for (size_t i2 = 0; i2 < n; ++i2) { uint32_t b = genFloatBits(r); float f = bitsToFloat(b); if (f != f) f = 1.5f; float v = i2 % 2 == 0 ? -0.0f : f; if (v == 0.0f && i2 % 2 != 0) v = -v; ep.floats.push_back(floatToBits(v)); }
            std::vector<SGroup> post = takeSnap(in.o()).groups, want = pre;
            SGroup *g = nullptr; for (auto &G : want) if (G.name == grp) { g = &G; break; }
            if (!g) { SGroup ng; ng.name = grp; want.push_back(ng); g = &want.back(); }
            bool rep = false; for (auto &P : g->params) if (P.name == name) { P = ep; rep = true; break; }
            if (!rep) g->params.push_back(ep);
            ++replaced;
            std::string d = firstDiff(groupsText(want), groupsText(post));
            if (!d.empty()) fail(i, op, "a parameter re-set on a copy with the sign of its zeros flipped does not hold the new values: " + d);
            return;
        }
        if (k == "preuse") {
            // one Parameter object set several times (type and overload change) and handed over after each set: what the object holds in
            // the end is what the LAST set asked for, in place of the earlier versions
            if (o.threw) { fail(i, op, "a sequence of accepted set() calls on one Parameter object threw " + o.cls + ": " + o.what); return; }
            if (in.lastReuse.empty()) return;
            SParam ep = expectedParam(in.lastReuse.back());
            std::vector<SGroup> post = takeSnap(in.o()).groups, want = pre;
            SGroup *g = nullptr; for (auto &G : want) if (G.name == o.note) { g = &G; break; }
            if (!g) { SGroup ng; ng.name = o.note; want.push_back(ng); g = &want.back(); ++created; }
            bool rep = false; for (auto &P : g->params) if (P.name == ep.name) { P = ep; rep = true; break; }
            if (rep) ++replaced; else { g->params.push_back(ep); ++appended; }
            ++reused;
            std::string d = firstDiff(groupsText(want), groupsText(post));
            if (!d.empty()) fail(i, op, "after " + std::to_string(in.lastReuse.size()) + " successive set() calls on one Parameter object (handed over after each) the object does not hold what the last one asked for: " + d);
            return;
        }
        if (k == "dimq") {
            // the acceptance rule itself, asked through the public helper: count == product of the dimensions (no dimension: product 1);
            // no data only with no dimension or a zero-sized shape
            long long n = op.arg(0) < 0 ? -op.arg(0) : op.arg(0); long long nd = (op.arg(1) < 0 ? -op.arg(1) : op.arg(1)) % 8;
            unsigned long long prod = 1; for (long long j = 0; j < nd; ++j) prod *= static_cast<unsigned long long>((op.arg(2 + static_cast<size_t>(j)) < 0 ? -op.arg(2 + static_cast<size_t>(j)) : op.arg(2 + static_cast<size_t>(j))) % 256);
            const bool want = n == 0 ? (nd == 0 || prod == 0) : static_cast<unsigned long long>(n) == prod;
            ++dimQueries;
            if (o.threw || o.note != std::string("dimq=") + (want ? "1" : "0")) fail(i, op, "isDimensionConsistent(" + std::to_string(n) + ", " + std::to_string(nd) + " dimensions of product " + std::to_string(prod) + ") answered " + (o.threw ? o.cls : o.note) + ", the rule says " + (want ? "1" : "0"));
            return;
        }
        if (k == "selfparam") {
            // expected: the destination group (created if absent) holds a copy of the source parameter as it was before the call,
            // replaced in place if a parameter of exactly that name was there, appended otherwise; nothing else changes
            if (o.threw) { fail(i, op, "handing a parameter of the object back to it (" + o.note + ") threw " + o.cls + ": " + o.what); return; }
            const std::string dst = o.note;
            SParam copy = in.lastSelfParam;
            std::vector<SGroup> post = takeSnap(in.o()).groups, want = pre;
            SGroup *g = nullptr; for (auto &G : want) if (G.name == dst) { g = &G; break; }
            if (!g) { SGroup ng; ng.name = dst; want.push_back(ng); g = &want.back(); ++created; }
            bool rep = false; for (auto &P : g->params) if (P.name == copy.name) { P = copy; rep = true; break; }
            if (rep) ++replaced; else { g->params.push_back(copy); ++appended; }
            ++selfHanded;
            std::string d = firstDiff(groupsText(want), groupsText(post));
            if (!d.empty()) fail(i, op, "a parameter of the object handed back to it for group " + q(dst) + " was not stored as it was: " + d);
            return;
        }
        if (k != "param" && k != "lockg" && k != "unlockg") return;
        std::vector<SGroup> post = takeSnap(in.o()).groups;
        if (k == "lockg" || k == "unlockg") {
            std::string gname = in.groupOf(op.arg(0));
            std::vector<SGroup> want = pre; bool found = false;
            for (auto &g : want) if (g.name == gname) { g.locked = (k == "lockg"); found = true; break; }
            if (!found) {
                if (!o.threw || o.cls != "invalid_argument") { fail(i, op, "unknown group: expected invalid_argument, got " + (o.threw ? o.cls : std::string("acceptance"))); return; }
            } else if (o.threw) { fail(i, op, "existing group but the call threw " + o.cls); return; }
            else ++locks;
            std::string d = firstDiff(groupsText(want), groupsText(post));
            if (!d.empty()) fail(i, op, "lock toggle changed something else / did not change the flag: " + d);
            return;
        }
        ParamSpec sp = in.specOf(op);
        // (a) Parameter::set acceptance rule
        const bool setRefusedNow = o.threw && (o.note == "set-refused" || o.note == "set-refused-on-copy");
        if (!sp.untyped) {
            bool expectAccept = sp.consistent;
            if (setRefusedNow && expectAccept) { fail(i, op, "Parameter::set refused values whose count equals the product of the dimensions (" + o.cls + ")"); return; }
            if (!setRefusedNow && !expectAccept) { fail(i, op, "Parameter::set accepted " + std::to_string(sp.count) + " values for dimensions whose product differs"); return; }
            if (setRefusedNow && o.cls != "range_error") { fail(i, op, "Parameter::set refused with " + o.cls + " instead of range_error"); return; }
        }
        if (setRefusedNow) {
            ++setRefused;
            { std::string m2 = sp.dims.empty() ? std::string() : refusedSetLeavesParameterUnchanged(sp); if (!m2.empty()) { fail(i, op, m2); return; } }
            std::string d = firstDiff(groupsText(pre), groupsText(post));
            if (!d.empty()) fail(i, op, "object changed although the parameter was never handed over: " + d);
            return;
        }
        // (b) c3d::parameter
        std::vector<SGroup> want = pre;
        if (sp.unnamed || sp.untyped) {
            const std::string cls = sp.unnamed ? "invalid_argument" : "runtime_error";
            if (!o.threw || o.cls != cls) { fail(i, op, std::string(sp.unnamed ? "unnamed" : "untyped") + " parameter: expected " + cls + ", got " + (o.threw ? o.cls : std::string("acceptance"))); return; }
        } else {
            if (o.threw) { fail(i, op, "valid parameter refused with " + o.cls + ": " + o.what); return; }
            SParam ep = expectedParam(sp);
            SGroup *g = nullptr;
            for (auto &G : want) if (G.name == sp.group) { g = &G; break; }
            if (!g) { SGroup ng; ng.name = sp.group; want.push_back(ng); g = &want.back(); ++created; }
            bool rep = false;
            for (auto &P : g->params) if (P.name == ep.name) { P = ep; rep = true; break; }
            if (rep) ++replaced; else { g->params.push_back(ep); ++appended; }
            if (ep.dims.size() >= (ep.type == -1 ? 4u : 3u)) ++multi;
            // look-up through the accessors returns what was given
            try {
                SParam got = takeParam(in.o().parameters().group(sp.group).parameter(sp.name));
                if (paramText(got) != paramText(ep)) { fail(i, op, "look-up returns " + paramText(got).substr(0, 300) + " instead of " + paramText(ep).substr(0, 300)); return; }
            } catch (...) { fail(i, op, "look-up of the parameter just added threw " + classifyCurrentException().cls); return; }
        }
        std::string d = firstDiff(groupsText(want), groupsText(post));
        if (!d.empty()) fail(i, op, "parameter tree differs from 'create group if absent, replace in place or append, everything else unchanged': " + d);
    }
};
}

CaseResult runC09(const Case &c, RunCtx &ctx) {
    CaseResult r;
    Interp in(ctx, "C09");
    L09 L(r); in.L = &L;
    in.run(c);
    r.nontrivial = L.replaced || L.multi || L.setRefused;
    if (L.replaced) r.tags.insert("replace-in-place"); if (L.appended) r.tags.insert("append"); if (L.created) r.tags.insert("group-created");
    if (L.selfHanded) r.tags.insert("own-parameter-handed-back"); if (L.dimQueries) r.tags.insert("dimension-rule-asked-directly"); if (L.reused) r.tags.insert("parameter-object-reused"); if (L.multi) r.tags.insert("dims>=3"); if (L.setRefused) r.tags.insert("set-refused"); if (L.locks) r.tags.insert("lock-toggle");
    r.counters["replaced"] = static_cast<long long>(L.replaced); r.counters["appended"] = static_cast<long long>(L.appended);
    r.counters["set_refused"] = static_cast<long long>(L.setRefused); r.counters["groups_created"] = static_cast<long long>(L.created);
    return r;
}
}
