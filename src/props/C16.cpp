// C16 Damaged files are refused or loaded, never crash or hang (time/memory proportional to the file).
#include "fileoracle.hpp"
#include <csignal>
#include <sys/time.h>
#include <unistd.h>
namespace vf {
const char *ntC16 = "non-trivial = mutated file differs from its well-formed base inside the header or the parameter section (data-only changes are trivial); distinct by (case text, mutation)";

namespace {
// CPU-time guard for loops that never reach a read (the read counter cannot see them): 20 s of process CPU time for ONE load of a
// file of at most a few KB is >= 10^4 times its normal cost. CPU time, not wall-clock: machine load does not matter.
void cpuGuardHandler(int) { const char m[] = "\nCPU-BUDGET-EXCEEDED: one load used more than 20 s of CPU time\n"; ssize_t r = write(2, m, sizeof m - 1); (void)r; _exit(97); }
void cpuGuard(bool on) {
    static bool installed = false;
    if (!installed) { signal(SIGVTALRM, cpuGuardHandler); installed = true; }
    struct itimerval it; it.it_interval.tv_sec = 0; it.it_interval.tv_usec = 0; it.it_value.tv_sec = on ? 20 : 0; it.it_value.tv_usec = 0;
    setitimer(ITIMER_VIRTUAL, &it, nullptr);
}
// returns "" if the load behaved; sets outcome class
std::string loadOnce(const std::vector<uint8_t> &bytes, const std::string &path, RunCtx &ctx, std::string &cls, bool &declSkipped) {
    declSkipped = false;
    writeBytes(path, bytes);
    hookArm(bytes.size());
    cpuGuard(true);
    std::unique_ptr<ezc3d::c3d> obj;
    Outcome o;
    try { obj.reset(new ezc3d::c3d(path)); }
    catch (...) { o = classifyCurrentException(); }
    cpuGuard(false);
    HookState hs = hook();
    hookDisarm();
    if (o.threw) {
        cls = o.cls;
        if (hs.declExceeded) { declSkipped = true; return ""; }      // known finding KF-D17 (declared data far beyond the file)
        if (hs.budgetExceeded || o.cls == "budget") return "load did not finish within work proportional to the file size (" + std::to_string(hs.reads) + " reads for " + std::to_string(bytes.size()) + " bytes)";
        if (o.cls == "non_std") return "load threw something that is not a standard exception";
        return "";
    }
    cls = "loaded";
    // the object must be usable and destructible
    try { Snap s = takeSnap(*obj); (void)s; obj.reset(); }
    catch (...) { Outcome e = classifyCurrentException(); if (e.cls == "non_std") return "using the loaded object threw a non-standard exception"; }
    (void)ctx;
    return "";
}
}

CaseResult runC16(const Case &c, RunCtx &ctx) {
    CaseResult r;
    FileInfo fi; bool corrupted = false, meta = false;
    std::vector<uint8_t> base = fileBytesOf(c.ops, &fi, &corrupted, &meta);
    const std::string path = ctx.scratch + "/c16.c3d";
    long long loads = 0, metaLoads = 0, declSkips = 0;
    std::map<std::string, long long> outcomes;
    auto one = [&](const std::vector<uint8_t> &b, const std::string &what, bool isMeta) -> bool {
        std::string cls; bool skipped = false;
        std::string m = loadOnce(b, path, ctx, cls, skipped);
        ++loads; if (isMeta) ++metaLoads;
        if (skipped) { ++declSkips; outcomes["skipped-declared-data-beyond-file"]++; return true; }
        outcomes[cls]++;
        if (!m.empty()) { r.fail(what + ": " + m); return false; }
        return true;
    };
    // where does the bulk data start in the base file? (mutations before it are the non-trivial ones)
    size_t dataOff = base.size();
    { ref::Decoded d = ref::decode(base); if (d.ok && d.dataOffset <= base.size()) dataOff = d.dataOffset; }
    bool swept = false;
    for (const Op &o : c.ops) {
        if (o.code == "sweeptrunc") {
            swept = true;
            for (long long n = o.arg(0); n < o.arg(1) && n <= static_cast<long long>(base.size()); ++n) {
                std::vector<uint8_t> b(base.begin(), base.begin() + n);
                if (!one(b, "truncation to " + std::to_string(n) + " bytes (replay: trunc " + std::to_string(n) + ")", static_cast<size_t>(n) < dataOff)) goto done;
            }
        } else if (o.code == "sweeppoke") {
            swept = true;
            static const int vals[] = {0, 1, 0x7F, 0x80, 0xFF};
            for (long long off = o.arg(0); off < o.arg(1) && off < static_cast<long long>(base.size()); ++off)
                for (int v : vals) {
                    if (base[static_cast<size_t>(off)] == v) continue;
                    std::vector<uint8_t> b = base; b[static_cast<size_t>(off)] = static_cast<uint8_t>(v);
                    if (!one(b, "byte " + std::to_string(off) + " := " + std::to_string(v) + " (replay: poke " + std::to_string(off) + " " + std::to_string(v) + ")", static_cast<size_t>(off) < dataOff)) goto done;
                }
        }
    }
    if (!swept) one(base, "corrupted file", meta);
done:
    r.tags = fi.tags;
    for (auto &kv : outcomes) { r.tags.insert("outcome:" + kv.first); r.counters["outcome:" + kv.first] += kv.second; }
    r.counters["loads"] = loads; r.counters["loads_with_header_or_parameter_damage"] = metaLoads;
    r.counters["excluded:KF-D17"] = declSkips;
    r.nontrivial = metaLoads > 0;
    return r;
}
}
