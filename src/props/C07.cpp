// C07 Frame-adding calls enforce their documented preconditions (and accept everything that matches).
#include "prophelp.hpp"
namespace vf {
const char *ntC07 = "non-trivial = history containing a frame or column call whose argument deviates from the declared state (or a matching call on a state with data); distinct by case text; the (state, deviation, outcome) matrix is reported in case_classes";

namespace {
bool isRuntimeFamily(const std::string &c) { return c == "runtime_error" || c == "range_error" || c == "ios_failure"; }

struct L07 : Listener {
    CaseResult &r; RunCtx &ctx;
    std::set<std::string> reasons;   // documented refusal reasons with class, e.g. "runtime:point-count"
    bool eitherWay = false;          // deviation the documentation does not cover
    std::string state, dev; size_t deviating = 0, matchingOnData = 0;
    bool gapcol = false;
    L07(CaseResult &rr, RunCtx &c) : r(rr), ctx(c) {}
    static std::string stateOf(const Shape &s) {
        std::string t;
        t += s.nP ? "P" : "-"; t += s.nC ? "A" : "-"; t += s.prate != 0 ? "r" : "-"; t += s.arate != 0 ? "a" : "-"; t += s.nFrames ? "D" : "-";
        return t;
    }
    void before(Interp &in, const Op &op, size_t) override {
        reasons.clear(); eitherWay = false; dev.clear(); gapcol = false;
        const std::string &k = op.code;
        if (k != "fsub" && k != "fsubx" && k != "pcol" && k != "acol" && k != "acolx") return;
        Shape s = shapeOf(in.o());
        state = stateOf(s);
        if (k == "fsub" || k == "fsubx") {
            size_t slot = static_cast<size_t>((op.arg(0) < 0 ? -op.arg(0) : op.arg(0)) % 4);
            SFrame F = takeFrame(in.slots[slot]);
            dev = in.slotDev[slot].empty() ? "unbuilt" : in.slotDev[slot];
            reasons = frameRefusalReasons(s, F, &eitherWay);
        }
    }
    void after(Interp &in, const Op &op, size_t i, const Outcome &o) override {
        const std::string &k = op.code;
        if (o.skipped) return;
        if (k == "pcol" || k == "acol" || k == "acolx") {
            // the interpreter reports the deviation it applied in o.note; reasons are derived from it and from the pre-state
            dev = o.note;
            Shape s; s.nFrames = 0;
            // pre-state facts needed: number of frames and sub-frames before the call == after a refusal; after acceptance unchanged too
            s = shapeOf(in.o());
            const bool isP = k == "pcol";
            const auto &col = in.lastCol;
            if (col.empty() || col.size() != s.nFrames) reasons.insert("invalid:frame-count");
            else {
                if (isP) { if (col[0].points().nbPoints() == 0) reasons.insert("invalid:nothing-supplied"); }
                else {
                    // "differs from the data set": the reference is what the stored frames hold (the header is expected to say the same)
                    size_t dataSub = s.nSub;
                    for (size_t f2 = 0; f2 < in.o().data().nbFrames(); ++f2) { const auto &sf = in.o().data().frame(f2); if (sf.analogs().nbSubframes() != 0) { dataSub = sf.analogs().nbSubframes(); break; } }
                    if (col[0].analogs().nbSubframes() != dataSub) reasons.insert("invalid:subframe-count");
                    else if (col[0].analogs().nbSubframes() == 0 || col[0].analogs().subframe(0).nbChannels() == 0) reasons.insert("invalid:nothing-supplied");
                }
            }
            if (dev.rfind("exists", 0) == 0) reasons.insert("invalid:name-exists");
            if (dev == "ragged" || dev == "altname" || dev == "altname-channels" || dev == "dupnew") eitherWay = true;
            if (!isP && !in.gapIdx.empty()) for (size_t f = 0; f < in.o().data().nbFrames(); ++f) if (in.o().data().frame(f).analogs().nbSubframes() != s.nSub) gapcol = true;   // KF-GAPCOL: frames left empty by an indexed add beyond the end
            // names duplicated inside the new columns, or reuse of a vector whose names now exist
            if (dev == "reuse-caller-vector") eitherWay = true;
        }
        if (k != "fsub" && k != "fsubx" && k != "pcol" && k != "acol" && k != "acolx") return;
        bool deviates = !(dev == "match" || dev == "unnamed-channels");
        if (deviates) ++deviating; else if (state.size() == 5 && state[4] == 'D') ++matchingOnData;
        std::string outc = o.threw ? o.cls : "accepted";
        r.tags.insert(k + "/" + state + "/" + dev + "/" + outc);
        // (frames on an object with nothing declared are accepted; the quantifier of C07 names "undeclared, with data" as a state, so the history goes on)
        if (!o.threw) {
            // a documented reason for refusal counts whether or not the frame ALSO deviates in a way the documentation is silent about
            if (!reasons.empty()) { r.fail("op " + std::to_string(i) + " (" + k + " " + dev + ", state " + state + ") was accepted although a documented precondition is violated: " + *reasons.begin()); stop = true; return; }
            if (o.undocumented) stop = true;
            return;
        }
        if (o.undocumented) { stop = true; return; }
        bool classOk = false;
        for (auto &rs : reasons) {
            if (rs.rfind("runtime:", 0) == 0 && isRuntimeFamily(o.cls)) classOk = true;
            if (rs.rfind("invalid:", 0) == 0 && o.cls == "invalid_argument") classOk = true;
        }
        if (classOk) return;
        if (reasons.empty() && eitherWay) { stop = true; return; }      // undocumented deviation: either outcome allowed
        if (reasons.empty()) {
            r.fail("op " + std::to_string(i) + " (" + k + " " + dev + ", state " + state + ") matches the declared state but was refused with " + o.cls + ": " + o.what);
            if (gapcol) r.knownFinding = "KF-GAPCOL";
        } else {
            if (eitherWay && (isRuntimeFamily(o.cls) || o.cls == "invalid_argument")) { stop = true; return; }
            r.fail("op " + std::to_string(i) + " (" + k + " " + dev + ", state " + state + ") refused with " + o.cls + " (" + o.what + ") but the documented class for " + *reasons.begin() + " differs");
            if (gapcol) r.knownFinding = "KF-GAPCOL";
        }
        stop = true;
    }
};
}

CaseResult runC07(const Case &c, RunCtx &ctx) {
    CaseResult r;
    Interp in(ctx, "C07");
    in.allowUndeclaredFrames = true;
    in.continueAfterConsistentDeviation = true;
    L07 L(r, ctx); in.L = &L;
    in.run(c);
    r.nontrivial = L.deviating > 0 || L.matchingOnData > 0;
    r.counters["deviating_calls"] = static_cast<long long>(L.deviating);
    r.counters["matching_calls_on_data"] = static_cast<long long>(L.matchingOnData);
    for (auto &kv : in.excluded) r.counters["excluded:" + kv.first] += kv.second;
    return r;
}
}
