// C02 Loading a well-formed file yields exactly what the file encodes (independent decoder as oracle).
#include "fileoracle.hpp"
namespace vf {
const char *ntC02 = "non-trivial = file uses >=2 layout variants at once, or holds a >=3-D / byte-typed / 0-dim-char / 1-dim-char parameter; distinct by case text";
CaseResult runC02(const Case &c, RunCtx &ctx) {
    CaseResult r;
    FileInfo fi;
    std::vector<uint8_t> bytes = fileBytesOf(c.ops, &fi);
    r.tags = fi.tags;
    std::unique_ptr<ezc3d::c3d> obj; bool self = false; std::string selfMsg;
    std::string m = checkLoadAgainstReference(bytes, ctx.scratch + "/c02.c3d", obj, self, selfMsg);
    if (self) { r.v = CaseResult::DISCARD; r.msg = "harness-self-test: " + selfMsg; return r; }
    if (!m.empty()) r.fail(m);
    size_t layoutVariants = 0;
    for (auto &t : fi.tags) if (t == "zeros" || t == "zeros-unaligned" || t == "param-block>2" || t == "zero-prologue" || t == "empty-analog-group" || t == "records-shuffled" ||
                                t == "params-before-groups" || t == "group-ids-nonstandard" || t == "labels-fewer" || t == "labels-more" || t == "first-frame>1" || t == "events") ++layoutVariants;
    r.nontrivial = layoutVariants >= 2 || fi.tags.count("dims>=3") || fi.tags.count("byte-param") || fi.tags.count("char-0dim") || fi.tags.count("char-1dim");
    if (fi.nFrames) r.tags.insert("frames");
    return r;
}
}
