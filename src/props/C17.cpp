// C17 Content at the format's limits survives; beyond them saving refuses (or still round-trips) - never a silent change.
#include "fileoracle.hpp"
namespace vf {
const char *ntC17 = "non-trivial = case with at least one field exactly at or beyond a capacity limit; distinct by the set of (limit, value) pairs";
CaseResult runC17(const Case &c, RunCtx &ctx) {
    CaseResult r;
    Interp in(ctx, "C17");
    std::string key; bool any = false;
    struct L17 : Listener { std::string &key; bool &any; L17(std::string &k, bool &a) : key(k), any(a) {}
        void after(Interp &, const Op &op, size_t, const Outcome &o) override { if (op.code == "limit" && !o.skipped) { key += o.note + (o.threw ? "!" + o.cls : "") + ";"; any = true; } } } L(key, any);
    in.L = &L;
    in.run(c);
    std::string why;
    if (!framesComplete(in.o(), &why)) { r.tags.insert("incomplete-at-save"); return r; }
    Snap a = takeSnap(in.o());
    const bool within = withinCapacity(a, &why);
    r.tags.insert(within ? "within-capacity" : "beyond:" + why);
    const std::string path = in.path("c17.c3d");
    bool threw = false; Outcome wo;
    try { in.o().write(path); } catch (...) { wo = classifyCurrentException(); threw = true; }
    r.nontrivial = any; r.ntKey = key;
    if (threw) {
        if (within) r.fail("content within every limit of the format was refused by write: " + wo.cls + ": " + wo.what);
        else r.tags.insert("refused-beyond-limit");
        return r;
    }
    if (const char *keep = getenv("VERIF_KEEP_FILE")) { std::vector<uint8_t> kb; readBytes(path, kb); writeBytes(keep, kb); }    // debugging aid
    std::unique_ptr<ezc3d::c3d> back;
    try { back.reset(new ezc3d::c3d(path)); }
    catch (...) { Outcome e = classifyCurrentException();
        r.fail(std::string(within ? "content at the limit" : "content beyond a limit (" + why + ")") + " was saved without error but the file does not load: " + e.cls + ": " + e.what); return r; }
    ContentOpts co; co.channelNames = false; co.trimA = true; co.trimB = false;   // the loaded object must hold the trimmed strings
    std::string d = diffContent(a, takeSnap(*back), co);
    if (!d.empty()) r.fail(std::string(within ? "content at the limit" : "content beyond a limit (" + why + ")") + " was saved without error but loads to something else: " + d);
    else r.tags.insert(within ? "round-trip-at-limit" : "round-trip-beyond-limit");
    return r;
}
}
