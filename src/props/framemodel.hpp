// Value model of the stored frame list (C06, C08): every accepted frame/column call changes exactly what is documented.
#pragma once
#include "prophelp.hpp"
namespace vf {

inline std::string framesText(const std::vector<SFrame> &v) {
    std::string s;
    for (size_t i = 0; i < v.size(); ++i) s += "F" + std::to_string(i) + " " + frameText(v[i]) + "\n";
    return s;
}
inline SFrame noChannelNames(SFrame f) { for (auto &s : f.subs) for (auto &c : s) c.name.clear(); return f; }

struct FrameModelListener : Listener {
    CaseResult &r;
    bool checkCallerIndependence;
    std::vector<SFrame> pre;         // stored frames before the op
    SFrame given;                    // caller's frame before the call (fsub)
    std::vector<SFrame> givenCol;    // caller's column vector before the call
    size_t indexed = 0, columns = 0, resubmits = 0, mutationsObserved = 0, appends = 0, declWithData = 0, selfSubmits = 0, refills = 0, copies = 0;
    std::set<size_t> submittedSlots; bool slotDirty[4] = {false, false, false, false};
    bool requireAcceptance = false;  // C06: a frame that matches the declared state must be added (append / replace / extend), not refused
    std::set<std::string> reasons; bool eitherWay = false; size_t matchingRefused = 0;
    FrameModelListener(CaseResult &rr, bool cci) : r(rr), checkCallerIndependence(cci) {}

    static std::vector<SFrame> stored(Interp &in) {
        std::vector<SFrame> v;
        for (size_t f = 0; f < in.o().data().nbFrames(); ++f) v.push_back(takeFrame(in.o().data().frame(f)));
        return v;
    }
    void before(Interp &in, const Op &op, size_t) override {
        pre = stored(in);
        if (op.code == "fsub" || op.code == "fsubx") {
            size_t slot = static_cast<size_t>((op.arg(0) < 0 ? -op.arg(0) : op.arg(0)) % 4);
            given = takeFrame(in.slots[slot]);
            reasons = frameRefusalReasons(shapeOf(in.o()), given, &eitherWay);
        }
        if (op.code == "selfsub" && !pre.empty()) given = pre[static_cast<size_t>(op.arg(0) < 0 ? -op.arg(0) : op.arg(0)) % pre.size()];
    }
    void fail(const std::string &m, size_t i, const Op &op) { r.fail("after op " + std::to_string(i) + " (" + op.code + "): " + m); stop = true; }
    void after(Interp &in, const Op &op, size_t i, const Outcome &o) override {
        if (o.skipped) return;
        std::vector<SFrame> post = stored(in);
        const std::string &k = op.code;
        if (o.threw) {
            // refusals are C10's business, except that "adding a frame grows / replaces / extends" presupposes that a frame which violates
            // none of the documented preconditions (C07) and deviates in no undocumented way is added at all
            if (requireAcceptance && (k == "fsub" || k == "fsubx") && reasons.empty() && !eitherWay) {
                fail("a frame that matches the declared names, counts and rates was refused with " + o.cls + " (" + o.what + "): the data set was not changed as documented for " + o.note, i, op);
            }
            return;
        }
        if (k == "selfsub") {
            std::vector<SFrame> want = pre;
            if (o.note.rfind("append", 0) == 0) { want.push_back(given); ++appends; }
            else if (o.note.rfind("replace", 0) == 0) { size_t idx = static_cast<size_t>(atoll(o.note.c_str() + 8)); want[idx] = given; ++indexed; }
            else if (o.note.rfind("extend", 0) == 0) { size_t idx = static_cast<size_t>(atoll(o.note.c_str() + 7)); want.resize(idx + 1); want[idx] = given; ++indexed; }
            std::string d = firstDiff(framesText(want), framesText(post));
            if (!d.empty()) { fail("handing a stored frame back to the object (" + o.note + ") did not give the documented result: " + d, i, op); return; }
            ++selfSubmits;
        } else if (k == "fsub" || k == "fsubx") {
            size_t slot = static_cast<size_t>((op.arg(0) < 0 ? -op.arg(0) : op.arg(0)) % 4);
            std::vector<SFrame> want = pre;
            if (o.note.rfind("append", 0) == 0) { want.push_back(given); ++appends; }
            else if (o.note.rfind("replace", 0) == 0) { size_t idx = static_cast<size_t>(atoll(o.note.c_str() + 8)); want[idx] = given; ++indexed; }
            else if (o.note.rfind("extend", 0) == 0) { size_t idx = static_cast<size_t>(atoll(o.note.c_str() + 7)); want.resize(idx + 1); want[idx] = given; ++indexed; }
            std::string d = firstDiff(framesText(want), framesText(post));
            if (!d.empty()) { fail("stored frames differ from the documented result of " + o.note + ": " + d, i, op); return; }
            if (submittedSlots.count(slot) && !slotDirty[slot]) ++resubmits;
            submittedSlots.insert(slot); slotDirty[slot] = false;
        } else if (k == "pcol" || k == "acol") {
            ++columns;
            std::vector<SFrame> want = pre;
            for (size_t f = 0; f < want.size() && f < in.lastCol.size(); ++f) {
                SFrame add = f < in.lastColModel.size() ? in.lastColModel[f] : takeFrame(in.lastCol[f]);
                if (k == "pcol") for (auto &p : add.pts) want[f].pts.push_back(p);
                else for (size_t s = 0; s < want[f].subs.size() && s < add.subs.size(); ++s) for (auto &c : add.subs[s]) want[f].subs[s].push_back(c);
            }
            std::string d = firstDiff(framesText(want), framesText(post));
            if (!d.empty()) { fail("column call did not change every frame by exactly the new column(s): " + d, i, op); return; }
        } else if ((k == "declp" || k == "decla") && !pre.empty()) {
            ++columns; ++declWithData;
            std::string name = rtrim(o.note.substr(0, o.note.find('|')));
            if (post.size() != pre.size()) { fail("declaring a name changed the number of frames", i, op); return; }
            for (size_t f = 0; f < pre.size(); ++f) {
                SFrame want = pre[f], got = post[f];
                if (k == "declp") {
                    if (got.pts.size() != want.pts.size() + 1) { fail("frame " + std::to_string(f) + " gained " + std::to_string(static_cast<long long>(got.pts.size()) - static_cast<long long>(want.pts.size())) + " points instead of 1", i, op); return; }
                    if (got.pts.back().name != name) { fail("new point is named " + q(got.pts.back().name) + " instead of " + q(name), i, op); return; }
                    got.pts.pop_back();
                } else {
                    if (got.subs.size() != want.subs.size()) { fail("frame " + std::to_string(f) + " sub-frame count changed", i, op); return; }
                    for (size_t s = 0; s < got.subs.size(); ++s) {
                        if (got.subs[s].size() != want.subs[s].size() + 1) { fail("frame " + std::to_string(f) + " sub-frame " + std::to_string(s) + " gained " + std::to_string(static_cast<long long>(got.subs[s].size()) - static_cast<long long>(want.subs[s].size())) + " channels instead of 1", i, op); return; }
                        if (got.subs[s].back().name != name) { fail("new channel is named " + q(got.subs[s].back().name), i, op); return; }
                        got.subs[s].pop_back();
                    }
                }
                std::string d = firstDiff(frameText(want), frameText(got));
                if (!d.empty()) { fail("frame " + std::to_string(f) + " changed beyond the new column: " + d, i, op); return; }
            }
        } else if (k == "reload" || k == "gapfill" || k == "new" || k == "load" || k == "resample") {
            // resynchronise (their effect on frames is checked by other properties)
        } else {
            // any other operation (parameters, locks, rates, print, save, caller-side mutations) must not touch stored frames
            std::string d = firstDiff(framesText(pre), framesText(post));
            if (!d.empty()) {
                if (k == "fmut" || k == "colmut" || k == "fbuild" || k == "refill" || k == "slotcopy" || k == "selfelem")
                    fail("stored frames changed when only the caller's own object was modified (" + o.note + "): " + d, i, op);
                else fail("stored frames changed by an operation that does not touch data: " + d, i, op);
                return;
            }
            if (k == "fmut") { size_t slot = static_cast<size_t>((op.arg(0) < 0 ? -op.arg(0) : op.arg(0)) % 4); if (submittedSlots.count(slot)) { ++mutationsObserved; } slotDirty[slot] = true; }
            if (k == "refill" || k == "slotcopy") { size_t slot = static_cast<size_t>((op.arg(0) < 0 ? -op.arg(0) : op.arg(0)) % 4); if (submittedSlots.count(slot)) ++mutationsObserved; slotDirty[slot] = true; submittedSlots.erase(slot); if (k == "refill") ++refills; else ++copies; }
            if (k == "fbuild") { size_t slot = static_cast<size_t>((op.arg(0) < 0 ? -op.arg(0) : op.arg(0)) % 4); if (submittedSlots.count(slot)) ++mutationsObserved; slotDirty[slot] = true; submittedSlots.erase(slot); }
            if (k == "colmut" && !in.lastCol.empty() && !pre.empty()) ++mutationsObserved;
        }
    }
};

} // namespace vf
