// C03 Saved files are valid, self-consistent C3D for any other reader (checked with the independent decoder).
#include "fileoracle.hpp"
namespace vf {
const char *ntC03 = "non-trivial = saved file checked with the reference decoder; distinct by (parameter-section length mod 512, number of groups, has-frames, loaded-then-edited)";
CaseResult runC03(const Case &c, RunCtx &ctx) {
    CaseResult r;
    Interp in(ctx, "C03");
    in.continueAfterConsistentDeviation = true;
    CountingListener L; in.L = &L;
    in.run(c);
    std::string why;
    if (!framesComplete(in.o(), &why)) { r.tags.insert("incomplete-at-save"); return r; }
    Snap a = takeSnap(in.o());
    if (!withinCapacity(a, &why)) { r.tags.insert("beyond-capacity"); return r; }
    size_t residue = 0;
    std::string m = checkSavedFile(in.o(), in.path("c03.c3d"), nullptr, &residue);
    if (!m.empty()) { r.fail(m); return r; }
    bool loaded = false; for (auto &o : c.ops) if (o.code == "load" || o.code == "reload") loaded = true;
    r.nontrivial = true;
    r.ntKey = std::to_string(residue) + "/" + std::to_string(a.groups.size()) + "/" + (a.frames.empty() ? "0" : "F") + (loaded ? "L" : "S");
    r.tags.insert("residue-class-" + std::to_string(residue / 64));
    r.tags.insert("res:" + std::to_string(residue));
    if (residue <= 4 || residue >= 508 || residue == 255 || residue == 256) r.tags.insert("boundary-residue");
    r.tags.insert(loaded ? "loaded-then-edited" : "from-scratch");
    r.tags.insert(a.frames.empty() ? "no-frames" : "frames");
    for (auto &kv : in.excluded) r.counters["excluded:" + kv.first] += kv.second;
    return r;
}
}
