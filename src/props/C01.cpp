// C01 Build -> save -> load returns the same content.
#include "prophelp.hpp"
namespace vf {
const char *ntC01 = "non-trivial = saved object has >=1 frame AND (a user parameter with >=2 dimensions or a description, or a non-zero residual); distinct by case text";

CaseResult runC01(const Case &c, RunCtx &ctx) {
    CaseResult r;
    Interp in(ctx, "C01");
    in.continueAfterConsistentDeviation = true;
    CountingListener L; in.L = &L;
    in.run(c);
    std::string why;
    if (!framesComplete(in.o(), &why)) { r.tags.insert("incomplete-at-save"); return r; }   // saving gap frames is out of domain
    Snap a = takeSnap(in.o());
    if (!withinCapacity(a, &why)) { r.tags.insert("beyond-capacity"); return r; }   // C17's domain
    const std::string path = in.path("c01.c3d");
    try { in.o().write(path); }
    catch (...) { Outcome e = classifyCurrentException(); r.fail("write threw " + e.cls + ": " + e.what); return r; }
    Snap a2 = takeSnap(in.o());
    std::unique_ptr<ezc3d::c3d> back;
    try { back.reset(new ezc3d::c3d(path)); }
    catch (...) { Outcome e = classifyCurrentException(); r.fail("saved file does not load: " + e.cls + ": " + e.what); return r; }
    Snap b = takeSnap(*back);
    ContentOpts co; co.channelNames = false; co.trimA = true; co.trimB = false;   // the loaded object must hold the trimmed strings
    std::string d = diffContent(a, b, co);
    if (!d.empty()) r.fail("loaded content differs from saved object: " + d);
    SnapFacts f = factsOf(a);
    r.nontrivial = f.frames >= 1 && (f.multiDim || f.described || f.nonzeroResidual);
    if (f.frames) r.tags.insert("frames"); else r.tags.insert("no-frames");
    if (f.points && f.channels) r.tags.insert("points+analogs"); else if (f.points) r.tags.insert("points-only"); else if (f.channels) r.tags.insert("analogs-only");
    if (f.multiDim) r.tags.insert("multi-dim-param");
    if (f.longDesc) r.tags.insert("desc>=128");
    if (f.emptyShape) r.tags.insert("empty-shape-param");
    if (f.lockedParams || f.lockedGroups) r.tags.insert("locks");
    if (f.customGroups) r.tags.insert("custom-groups");
    if (f.nonzeroResidual) r.tags.insert("residuals");
    if (L.refused) r.tags.insert("has-refused-calls");
    for (auto &kv : in.excluded) r.counters["excluded:" + kv.first] += kv.second;
    return r;
}
}
