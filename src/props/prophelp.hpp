#pragma once
#include "../common/interp.hpp"
#include "../common/props.hpp"
#include "../common/refc3d.hpp"
#include "../common/filemodel.hpp"

namespace vf {

// every stored frame carries the declared shape (precondition of saving a meaningful file)
inline bool framesComplete(const ezc3d::c3d &o, std::string *why = nullptr) {
    Shape s = shapeOf(o);
    // with channels, the reference is what frame 0 holds, not what the header says: if the two disagree that is the library's inconsistency
    // (C05) and the object is saved all the same, so that the checks on the saved file see it
    size_t wantSub = s.nC ? (o.data().nbFrames() ? o.data().frame(0).analogs().nbSubframes() : s.nSub) : 0;
    for (size_t f = 0; f < o.data().nbFrames(); ++f) {
        const auto &fr = o.data().frame(f);
        if (fr.points().nbPoints() != s.nP) { if (why) *why = "frame " + std::to_string(f) + " has " + std::to_string(fr.points().nbPoints()) + " points, declared " + std::to_string(s.nP); return false; }
        // (an object loaded from a file without channels holds sub-frames without channels: they carry no sample)
        if (s.nC != 0 && fr.analogs().nbSubframes() != wantSub) { if (why) *why = "frame " + std::to_string(f) + " sub-frames"; return false; }
        for (size_t k = 0; k < fr.analogs().nbSubframes(); ++k)
            if (fr.analogs().subframe(k).nbChannels() != s.nC) { if (why) *why = "frame " + std::to_string(f) + " channels"; return false; }
    }
    return true;
}

// content within the capacity of the format's one- and two-byte fields (beyond it: C17's domain)
inline bool withinCapacity(const Snap &s, std::string *why = nullptr) {
    auto bad = [&](const std::string &m) { if (why) *why = m; return false; };
    if (s.groups.size() > 127) return bad("more than 127 groups");
    if (s.frames.size() > 32767) return bad("more than 32767 frames");
    for (auto &g : s.groups) {
        if (g.name.size() > 127 || g.desc.size() > 255) return bad("group name/description too long");
        for (auto &p : g.params) {
            if (p.name.size() > 127 || p.desc.size() > 255) return bad("parameter name/description too long");
            if (p.dims.size() > 7) return bad("more than 7 dimensions");
            size_t bytes = p.type == -1 ? 1 : static_cast<size_t>(p.type);
            for (auto d : p.dims) { if (d > 255) return bad("dimension > 255"); bytes *= d; }
            if (bytes + p.desc.size() + p.dims.size() + 5 > 65535) return bad("parameter record larger than a 16-bit offset can span");
            if (p.type == 2) for (int v : p.ints) if (v < -32768 || v > 32767) return bad("integer beyond 16 bits");
        }
    }
    {   // the whole parameter section must fit in 255 blocks
        size_t bytes = 4;
        for (auto &g : s.groups) {
            if (g.name.empty() && g.params.empty()) continue;
            bytes += 2 + g.name.size() + 2 + 1 + g.desc.size();
            for (auto &p : g.params) {
                size_t data = p.type == -1 ? 1 : static_cast<size_t>(p.type);
                for (auto d : p.dims) data *= d;
                if (p.dims.empty()) data = 0;
                const size_t dimBytes = (p.dims.size() == 1 && p.dims[0] == 1) ? 0 : p.dims.size();    // a scalar is written with 0 dimensions
                bytes += 2 + p.name.size() + 2 + 2 + dimBytes + data + 1 + p.desc.size();
            }
        }
        if (bytes + 1 > 255u * 512u) return bad("parameter section larger than 255 blocks");
    }
    {   // POINT/ANALOG label tables are addressed with one byte
        for (auto &g : s.groups) if (g.name == "POINT" || g.name == "ANALOG") for (auto &p : g.params) if (p.type == -1 && p.strs.size() > 255) return bad("more than 255 labels");
    }
    // the header words are 16 bits wide; without frames the sub-frame count comes from the ratio of the declared rates
    if (s.h.nb3dPoints > 65535 || s.h.nbAnalogByFrame > 65535 || s.h.nbAnalogsMeasurement > 65535 || s.h.nbAnalogs * s.h.nbAnalogByFrame > 65535) return bad("header capacity (analog samples per frame)");
    if (!s.frames.empty()) {
        if (s.frames[0].pts.size() > 255) return bad("more than 255 points");
        size_t sub = s.frames[0].subs.size(), ch = sub ? s.frames[0].subs[0].size() : 0;
        if (ch > 255 || sub * ch > 65535) return bad("analog capacity");
    }
    return true;
}

// Documented reasons (C07's statement) for which c3d::frame must refuse the frame F on an object of shape s; *eitherWay is set
// when F deviates in a way the documentation is silent about (undeclared columns, sub-frame count, ragged sub-frames, duplicate names).
inline std::set<std::string> frameRefusalReasons(const Shape &s, const SFrame &F, bool *eitherWay) {
    std::set<std::string> reasons; bool ew = false;
    if (s.nP != 0 && F.pts.size() != s.nP) reasons.insert("runtime:point-count");
    for (auto &l : s.plabels) { bool found = false; for (auto &p : F.pts) if (p.name == l) found = true; if (!found) reasons.insert("invalid:label-missing"); }
    if (!F.pts.empty() && s.prate == 0.f) reasons.insert("runtime:point-rate-0");
    if (!F.subs.empty() && s.arate == 0.f) reasons.insert("runtime:analog-rate-0");
    if (!F.subs.empty() && s.nC != 0 && F.subs[0].size() != s.nC) reasons.insert("runtime:channel-count");
    if (s.nP == 0 && !F.pts.empty()) ew = true;
    if (s.nC == 0 && !F.subs.empty() && !F.subs[0].empty()) ew = true;
    if (F.subs.size() != (s.nC ? s.nSub : 0)) ew = true;
    for (auto &sf : F.subs) if (sf.size() != (F.subs.empty() ? 0 : F.subs[0].size())) ew = true;
    std::set<std::string> seen; for (auto &p : F.pts) { if (seen.count(p.name)) ew = true; seen.insert(p.name); }
    if (eitherWay) *eitherWay = ew;
    return reasons;
}

struct SnapFacts {
    size_t frames = 0, points = 0, channels = 0, subs = 0, userParams = 0, multiDim = 0, described = 0, nonzeroResidual = 0,
           lockedParams = 0, lockedGroups = 0, customGroups = 0, longDesc = 0, emptyShape = 0, strParams = 0;
};
inline SnapFacts factsOf(const Snap &s) {
    SnapFacts f;
    f.frames = s.frames.size();
    if (!s.frames.empty()) { f.points = s.frames[0].pts.size(); f.subs = s.frames[0].subs.size(); if (f.subs) f.channels = s.frames[0].subs[0].size(); }
    for (auto &fr : s.frames) for (auto &p : fr.pts) if (p.v[3] != 0) ++f.nonzeroResidual;
    for (auto &g : s.groups) {
        std::string gn = upper(g.name);
        bool std3 = gn == "POINT" || gn == "ANALOG" || gn == "FORCE_PLATFORM";
        if (!std3) ++f.customGroups;
        if (g.locked) ++f.lockedGroups;
        for (auto &p : g.params) {
            bool user = upper(p.name).rfind("N2", 0) == 0;      // pool names of 'param' ops start with N2xxx
            if (!user) continue;
            ++f.userParams;
            if (p.dims.size() >= (p.type == -1 ? 3u : 2u)) ++f.multiDim;
            if (!p.desc.empty()) ++f.described;
            if (p.desc.size() >= 128) ++f.longDesc;
            if (p.locked) ++f.lockedParams;
            if (p.type == -1) ++f.strParams;
            size_t prod = 1; for (auto d : p.dims) prod *= d; if (prod == 0) ++f.emptyShape;
        }
    }
    return f;
}

// "a refused Parameter::set leaves the parameter as it was": redo the refused set on parameters that already hold a value
// (of each type), returns "" when they are left unchanged
inline std::string refusedSetLeavesParameterUnchanged(const ParamSpec &sp) {
    for (int holder = 0; holder < 3; ++holder) {
        ezc3d::ParametersNS::GroupNS::Parameter p("keep", "d");
        if (holder == 0) p.set(std::vector<int>() = {7, 8, 9}, {3});
        else if (holder == 1) p.set(std::vector<float>() = {1.5f, -2.f}, {1, 2});
        else p.set(std::vector<std::string>() = {"ab", "c", "def"}, {3, 1});
        p.lock();
        SParam before = takeParam(p);
        bool threw = false;
        try {
            if (sp.type == 0) p.set(sp.ints, sp.dims);
            else if (sp.type == 1) { std::vector<float> v; for (auto b : sp.floats) v.push_back(bitsToFloat(b)); p.set(v, sp.dims); }
            else p.set(sp.strs, sp.dims);
        } catch (const std::range_error &) { threw = true; }
        if (!threw) return "a second, identical refused set did not throw range_error";
        if (paramText(before) != paramText(takeParam(p))) return "a refused set changed the parameter it was called on: was " + paramText(before).substr(0, 200) + ", now " + paramText(takeParam(p)).substr(0, 200);
    }
    return "";
}

struct CountingListener : Listener {
    size_t refused = 0, accepted = 0, skipped = 0;
    std::map<std::string, size_t> byOp;
    void after(Interp &, const Op &op, size_t, const Outcome &o) override {
        if (o.skipped) ++skipped; else if (o.threw) ++refused; else ++accepted;
        byOp[op.code]++;
    }
};

} // namespace vf
