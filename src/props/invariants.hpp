// C05 invariants: header, POINT/ANALOG parameters and stored data agree.
#pragma once
#include "prophelp.hpp"
#include <cmath>
namespace vf {

inline const SParam *findParam(const Snap &s, const std::string &g, const std::string &p) {
    for (auto &G : s.groups) if (G.name == g) for (auto &P : G.params) if (P.name == p) return &P;
    return nullptr;
}
inline bool groupHasParams(const Snap &s, const std::string &g) {
    for (auto &G : s.groups) if (G.name == g) return !G.params.empty();
    return false;
}

// returns "" when all invariants hold, else a description of the first one broken
inline std::string checkAgreement(const Snap &s, bool namedDeclarations, const std::set<size_t> *gaps = nullptr, bool everyFrameCameWithSubframes = false) {
    auto isGap = [&](size_t f) { return gaps && gaps->count(f) != 0; };
    auto intOf = [&](const char *g, const char *p, long long &out) -> bool {
        const SParam *P = findParam(s, g, p); if (!P || P->type != 2 || P->ints.empty()) return false; out = P->ints[0]; return true;
    };
    long long used = 0, framesP = 0, aused = 0;
    if (!intOf("POINT", "USED", used)) return "POINT:USED missing or not an integer";
    if (!intOf("POINT", "FRAMES", framesP)) return "POINT:FRAMES missing or not an integer";
    const bool analogGroup = groupHasParams(s, "ANALOG");
    if (analogGroup && !intOf("ANALOG", "USED", aused)) return "ANALOG:USED missing or not an integer";
    // I1
    if (static_cast<long long>(s.h.nb3dPoints) != used) return "I1 header points " + std::to_string(s.h.nb3dPoints) + " != POINT:USED " + std::to_string(used);
    for (size_t f = 0; f < s.frames.size(); ++f) {
        const SFrame &F = s.frames[f];
        bool filled = (!F.pts.empty() || !F.subs.empty()) && !isGap(f);
        if (filled && static_cast<long long>(F.pts.size()) != used)
            return "I1 frame " + std::to_string(f) + " has " + std::to_string(F.pts.size()) + " points, POINT:USED " + std::to_string(used);
    }
    // I2
    if (static_cast<long long>(s.frames.size()) != framesP) return "I2 stored frames " + std::to_string(s.frames.size()) + " != POINT:FRAMES " + std::to_string(framesP);
    if (s.h.nbFrames != s.frames.size() && !(used == 0 && aused == 0))
        return "I2 header frame count " + std::to_string(s.h.nbFrames) + " != stored frames " + std::to_string(s.frames.size());
    // I3
    if (aused > 0) {
        bool anyAnalog = false;
        for (size_t f = 0; f < s.frames.size(); ++f) if (!s.frames[f].subs.empty() && !isGap(f)) anyAnalog = true;
        if (anyAnalog) {
            for (size_t f = 0; f < s.frames.size(); ++f) {
                const SFrame &F = s.frames[f];
                bool filled = (!F.pts.empty() || !F.subs.empty()) && !isGap(f);
                if (!filled) continue;
                if (F.subs.size() != s.h.nbAnalogByFrame)
                    return "I3 frame " + std::to_string(f) + " has " + std::to_string(F.subs.size()) + " sub-frames, header " + std::to_string(s.h.nbAnalogByFrame);
                for (auto &sf : F.subs) if (static_cast<long long>(sf.size()) != aused)
                    return "I3 frame " + std::to_string(f) + " sub-frame with " + std::to_string(sf.size()) + " channels, ANALOG:USED " + std::to_string(aused);
            }
        }
        if (s.h.nbAnalogByFrame >= 1) {
            if (static_cast<long long>(s.h.nbAnalogs) != aused) return "I3 header channels " + std::to_string(s.h.nbAnalogs) + " != ANALOG:USED " + std::to_string(aused);
            if (s.h.nbAnalogsMeasurement != s.h.nbAnalogs * s.h.nbAnalogByFrame) return "I3 analog samples per frame != channels x sub-frames";
        }
    } else if (s.h.nbAnalogByFrame >= 1 && s.h.nbAnalogs != 0) return "I3 header channels " + std::to_string(s.h.nbAnalogs) + " but ANALOG:USED 0";
    if (aused == 0 && everyFrameCameWithSubframes) {
        // no channel, but every frame was just read from a file: "header sub-frames-per-frame = sub-frames in each filled frame" holds for
        // them too. (Frames the caller stored WITHOUT sub-frames on an object that declares an ANALOG:RATE, or a rate set later on such an
        // object, are the don't-care of DESIGN §6 no. 1 and are not looked at.)
        for (size_t f = 0; f < s.frames.size(); ++f) {
            const SFrame &F = s.frames[f];
            bool filled = (!F.pts.empty() || !F.subs.empty()) && !isGap(f);
            if (filled && F.subs.size() != s.h.nbAnalogByFrame)
                return "I3 frame " + std::to_string(f) + " has " + std::to_string(F.subs.size()) + " sub-frames (no channel), header " + std::to_string(s.h.nbAnalogByFrame);
        }
    }
    // I4
    {
        const SParam *R = findParam(s, "POINT", "RATE");
        if (!R || R->type != 4 || R->floats.empty()) return "POINT:RATE missing";
        float pr = bitsToFloat(R->floats[0]), hr = bitsToFloat(s.h.frameRate);
        if (!(std::fabs(pr - hr) <= 1e-4f)) return "I4 header rate " + std::to_string(hr) + " != POINT:RATE " + std::to_string(pr);
    }
    // I5
    if (namedDeclarations) {
        for (const char *n : {"LABELS", "DESCRIPTIONS", "UNITS"}) {
            const SParam *P = findParam(s, "POINT", n);
            if (!P || P->type != -1) return std::string("I5 POINT:") + n + " missing";
            if (static_cast<long long>(P->strs.size()) != used) return std::string("I5 POINT:") + n + " has " + std::to_string(P->strs.size()) + " entries, POINT:USED " + std::to_string(used);
        }
        const SParam *L = findParam(s, "POINT", "LABELS");
        for (size_t f = 0; f < s.frames.size(); ++f) {
            const SFrame &F = s.frames[f];
            if (F.pts.empty() || isGap(f)) continue;
            for (size_t i = 0; i < F.pts.size() && i < L->strs.size(); ++i)
                if (F.pts[i].name != L->strs[i]) return "I5 frame " + std::to_string(f) + " point " + std::to_string(i) + " is " + q(F.pts[i].name) + ", POINT:LABELS says " + q(L->strs[i]);
        }
        if (analogGroup) {
            for (const char *n : {"LABELS", "DESCRIPTIONS", "SCALE", "OFFSET", "UNITS"}) {
                const SParam *P = findParam(s, "ANALOG", n);
                if (!P) return std::string("I5 ANALOG:") + n + " missing";
                size_t cnt = P->type == -1 ? P->strs.size() : (P->type == 4 ? P->floats.size() : P->ints.size());
                if (static_cast<long long>(cnt) != aused) return std::string("I5 ANALOG:") + n + " has " + std::to_string(cnt) + " entries, ANALOG:USED " + std::to_string(aused);
            }
        }
    }
    return "";
}


// frames left empty by an indexed add beyond the end are not 'filled' frames
struct GapTracker {
    std::set<size_t> gaps; size_t preFrames = 0;
    bool named = true;       // false once a file was loaded whose label tables do not match the points / channels in use (vendor layout)
    void before(Interp &in) { preFrames = in.o().data().nbFrames(); }
    void afterLoad(Interp &in, const Op &op, const Outcome &o) {
        if (op.code == "load" && !o.threw) { Shape sh = shapeOf(in.o()); if (sh.plabels.size() != sh.nP || sh.alabels.size() != sh.nC) named = false; }
    }
    void after(const Op &op, const Outcome &o) {
        if (o.threw || o.skipped) return;
        if (o.note.rfind("extend", 0) == 0) { size_t idx = static_cast<size_t>(atoll(o.note.c_str() + 7)); for (size_t g = preFrames; g < idx; ++g) gaps.insert(g); }
        if (o.note.rfind("replace", 0) == 0) gaps.erase(static_cast<size_t>(atoll(o.note.c_str() + 8)));
        if (op.code == "reload" || op.code == "new" || op.code == "load" || op.code == "gapfill") gaps.clear();
    }
};

} // namespace vf
