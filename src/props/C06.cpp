// C06 Adding a frame appends, replaces or extends exactly as documented; column adds change every frame by one column.
#include "framemodel.hpp"
namespace vf {
const char *ntC06 = "non-trivial = history with an accepted indexed call (replace/extend) on a data set of >=2 frames, or an accepted column call; distinct by case text";
CaseResult runC06(const Case &c, RunCtx &ctx) {
    CaseResult r;
    Interp in(ctx, "C06");
    in.allowUndeclaredFrames = true;      // the frame list semantics hold for every data set, also one without declarations
    FrameModelListener L(r, false); L.requireAcceptance = true; in.L = &L;
    in.run(c);
    r.nontrivial = (L.indexed && in.o().data().nbFrames() >= 2) || L.columns;
    if (L.indexed) r.tags.insert("indexed"); if (L.columns) r.tags.insert("column"); if (L.appends) r.tags.insert("append");
    if (L.declWithData) r.tags.insert("declare-with-data");
    r.counters["indexed_calls"] = static_cast<long long>(L.indexed); r.counters["column_calls"] = static_cast<long long>(L.columns);
    r.counters["appends"] = static_cast<long long>(L.appends);
    for (auto &kv : in.excluded) r.counters["excluded:" + kv.first] += kv.second;
    return r;
}
}
