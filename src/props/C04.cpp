// C04 Load -> save -> load preserves a file's content; a further save is byte-identical.
#include "fileoracle.hpp"
namespace vf {
const char *ntC04 = "non-trivial = input file contains a reader-only state (1-D string, byte type, 0-dim char, placeholder/sparse group id, first frame != 1, header event, description >= 128, non-standard layout); distinct by case text";
CaseResult runC04(const Case &c, RunCtx &ctx) {
    CaseResult r;
    FileInfo fi;
    std::vector<uint8_t> bytes = fileBytesOf(c.ops, &fi);
    r.tags = fi.tags;
    const std::string p0 = ctx.scratch + "/c04_in.c3d";
    writeBytes(p0, bytes);
    std::unique_ptr<ezc3d::c3d> o1;
    try { o1.reset(new ezc3d::c3d(p0)); }
    catch (...) { r.v = CaseResult::DISCARD; r.msg = "input-not-loadable (C02's business)"; return r; }
    Snap s1 = takeSnap(*o1);
    ContentOpts co = fileContentOpts();
    std::vector<uint8_t> prev; Snap sPrev = s1; std::unique_ptr<ezc3d::c3d> cur = std::move(o1);
    const int generations = ctx.tier ? 4 : 3;
    for (int g = 2; g <= generations + 1; ++g) {
        const std::string p = ctx.scratch + "/c04_g" + std::to_string(g) + ".c3d";
        try { cur->write(p); }
        catch (...) { Outcome e = classifyCurrentException(); r.fail("saving generation " + std::to_string(g - 1) + " threw " + e.cls + ": " + e.what); return r; }
        std::vector<uint8_t> b; readBytes(p, b);
        if (g >= 3 && b != prev) {
            size_t k = 0; while (k < b.size() && k < prev.size() && b[k] == prev[k]) ++k;
            r.fail("save of generation " + std::to_string(g - 1) + " is not byte-identical to the save of generation " + std::to_string(g - 2) + " (first difference at offset " + std::to_string(k) +
                   ", sizes " + std::to_string(prev.size()) + " / " + std::to_string(b.size()) + ")");
            return r;
        }
        prev = b;
        std::unique_ptr<ezc3d::c3d> next;
        try { next.reset(new ezc3d::c3d(p)); }
        catch (...) { Outcome e = classifyCurrentException(); r.fail("file saved from generation " + std::to_string(g - 1) + " does not load: " + e.cls + ": " + e.what); return r; }
        Snap sn = takeSnap(*next);
        std::string d = diffContent(s1, sn, co);
        if (!d.empty()) { r.fail("generation " + std::to_string(g) + " differs from the content loaded from the original file: " + d); return r; }
        cur = std::move(next);
    }
    static const char *nt[] = {"char-1dim", "byte-param", "char-0dim", "sparse-group-id", "group-ids-nonstandard", "first-frame>1", "events", "desc>=128", "zeros", "zeros-unaligned",
                               "param-block>2", "zero-prologue", "empty-analog-group", "params-before-groups", "event-display-raw"};
    for (auto t : nt) if (fi.tags.count(t)) r.nontrivial = true;
    for (auto &t : fi.tags) if (t.rfind("vendor:", 0) == 0) r.nontrivial = true;
    return r;
}
}
