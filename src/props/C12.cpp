// C12 Every integer and float bit pattern is decoded and encoded exactly.
#include "fileoracle.hpp"
namespace vf {
const char *ntC12 = "non-trivial = file whose enumerated/boundary values include one with the top bit of its field set or a non-finite/denormal float (every enumerated case qualifies); distinct by case text";
CaseResult runC12(const Case &c, RunCtx &ctx) {
    CaseResult r;
    FileInfo fi;
    std::vector<uint8_t> bytes = fileBytesOf(c.ops, &fi);
    r.tags = fi.tags;
    std::unique_ptr<ezc3d::c3d> obj; bool self = false; std::string selfMsg; Snap expect;
    std::string m = checkLoadAgainstReference(bytes, ctx.scratch + "/c12.c3d", obj, self, selfMsg, &expect);
    if (self) { r.v = CaseResult::DISCARD; r.msg = "harness-self-test: " + selfMsg; return r; }
    if (!m.empty()) { r.fail("decode: " + m); return r; }
    // encode: the re-saved file must hold the same values (decoded by the reference decoder, compared bit for bit)
    const std::string p2 = ctx.scratch + "/c12_out.c3d";
    try { obj->write(p2); } catch (...) { Outcome e = classifyCurrentException(); r.fail("write threw " + e.cls + ": " + e.what); return r; }
    std::vector<uint8_t> b2; readBytes(p2, b2);
    ref::Decoded d2 = ref::decode(b2);
    if (!d2.ok) { r.fail("re-saved file cannot be decoded: " + d2.error); return r; }
    Snap saved = ref::contentOf(d2.f);
    std::string diff = diffContent(expect, saved, fileContentOpts());
    if (!diff.empty()) { r.fail("encode: values in the re-saved file differ from the input file (reference decoder on both): " + diff); return r; }
    // and it loads back to the same values
    try { ezc3d::c3d again(p2); std::string d3 = diffContent(expect, takeSnap(again), fileContentOpts()); if (!d3.empty()) { r.fail("reload: " + d3); return r; } }
    catch (...) { Outcome e = classifyCurrentException(); r.fail("re-saved file does not load: " + e.cls + ": " + e.what); return r; }
    r.nontrivial = true;
    // count the values this case carries, by class
    long long top = 0, special = 0;
    for (auto &g : expect.groups) for (auto &p : g.params) {
        if (p.type == 1) for (int v : p.ints) if (v < 0) ++top;
        if (p.type == 2) for (int v : p.ints) if (v < 0) ++top;
        if (p.type == 4) for (uint32_t v : p.floats) { uint32_t ex = (v >> 23) & 0xFF; if (ex == 0 || ex == 255) ++special; }
    }
    for (auto &f : expect.frames) { for (auto &pt : f.pts) for (int k = 0; k < 4; ++k) { uint32_t ex = (pt.v[k] >> 23) & 0xFF; if (ex == 0 || ex == 255) ++special; }
                                    for (auto &s : f.subs) for (auto &ch : s) { uint32_t ex = (ch.v >> 23) & 0xFF; if (ex == 0 || ex == 255) ++special; } }
    r.counters["values_with_top_bit_set"] = top; r.counters["nonfinite_or_denormal_floats"] = special;
    return r;
}
}
