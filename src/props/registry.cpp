#include "../common/props.hpp"
namespace vf {
#define DECL(id) CaseResult run##id(const Case &, RunCtx &); extern const char *nt##id;
DECL(C01) DECL(C02) DECL(C03) DECL(C04) DECL(C05) DECL(C06) DECL(C07) DECL(C08) DECL(C09) DECL(C10) DECL(C11) DECL(C12) DECL(C13) DECL(C14) DECL(C15) DECL(C16) DECL(C17)
#undef DECL
#define ENT(id) {#id, run##id, nullptr}
static PropDef kProps[] = { ENT(C01), ENT(C02), ENT(C03), ENT(C04), ENT(C05), ENT(C06), ENT(C07), ENT(C08), ENT(C09), ENT(C10), ENT(C11), ENT(C12), ENT(C13), ENT(C14), ENT(C15), ENT(C16), ENT(C17) };
static const char **kRules[] = { &ntC01, &ntC02, &ntC03, &ntC04, &ntC05, &ntC06, &ntC07, &ntC08, &ntC09, &ntC10, &ntC11, &ntC12, &ntC13, &ntC14, &ntC15, &ntC16, &ntC17 };
const PropDef *findProp(const std::string &id) {
    size_t n = sizeof(kProps) / sizeof(kProps[0]);
    for (size_t i = 0; i < n; ++i) if (id == kProps[i].id) { kProps[i].ntRule = *kRules[i]; return &kProps[i]; }
    return nullptr;
}
}
