// C10 A refused call leaves the object unchanged.
#include "invariants.hpp"
namespace vf {
const char *ntC10 = "non-trivial = history with a refused public mutating call on an object holding >=1 frame and >=1 user group, or a refused call whose argument is only partly invalid; distinct by case text";
namespace {
struct L10 : Listener {
    CaseResult &r; Snap pre; size_t refused = 0, refusedRich = 0, partly = 0; GapTracker gt;
    explicit L10(CaseResult &rr) : r(rr) {}
    void before(Interp &in, const Op &, size_t) override { pre = takeSnap(in.o()); gt.before(in); }
    void after(Interp &in, const Op &op, size_t i, const Outcome &o) override {
        if (o.undocumented) { r.tags.insert("ended-by-undocumented-accepted-deviation"); stop = true; return; }
        gt.after(op, o); gt.afterLoad(in, op, o);
        if (op.code == "param" && o.threw && (o.note == "set-refused" || o.note == "set-refused-on-copy")) {
            // a refused Parameter::set ("inconsistent dimensions") must leave the parameter it was called on as it was
            ParamSpec sp = in.specOf(op);
            if (!sp.dims.empty()) { ++refused; ++partly; std::string m2 = refusedSetLeavesParameterUnchanged(sp); if (!m2.empty()) { r.fail("op " + std::to_string(i) + " (param): " + m2); stop = true; return; } }
        }
        if (o.skipped || !o.threw || !o.mutating) return;
        ++refused;
        Snap post = takeSnap(in.o());
        std::string d = diffIdentical(pre, post);
        if (!d.empty()) { r.fail("op " + std::to_string(i) + " (" + op.code + " " + o.note + ") threw " + o.cls + " but the object changed: " + d); if (op.code == "mandparam") r.knownFinding = "KF-MANDTYPE"; if (op.code == "paramx" && in.analogGroupEmpty) r.knownFinding = "KF-EMPTYANALOG"; stop = true; return; }
        SnapFacts f = factsOf(pre);
        if (f.frames >= 1 && f.customGroups >= 1) ++refusedRich;
        if (o.note == "exists1" || o.note == "ragged" || o.note == "altname" || (op.code == "param" && o.cls == "runtime_error")) ++partly;
    }
};
}
CaseResult runC10(const Case &c, RunCtx &ctx) {
    CaseResult r;
    Interp in(ctx, "C10");
    L10 L(r); in.L = &L;
    in.run(c);
    r.counters["refused_calls"] = static_cast<long long>(L.refused);
    for (auto &kv : in.excluded) r.counters["excluded:" + kv.first] += kv.second;
    if (r.v == CaseResult::FAIL) return r;
    r.nontrivial = L.refusedRich || L.partly;
    if (L.refused) r.tags.insert("refused"); if (L.partly) r.tags.insert("partly-invalid"); if (L.refusedRich) r.tags.insert("refused-on-rich-object");
    if (L.refused && !in.halted) {
        // agreement of C05 still holds and the object can still be saved and reloaded
        Snap a = takeSnap(in.o());
        std::string m = checkAgreement(a, L.gt.named, &L.gt.gaps);
        if (!m.empty()) { r.fail("after refused calls the header/parameter/data agreement is broken: " + m); return r; }
        std::string why;
        if (framesComplete(in.o(), &why) && withinCapacity(a, &why) && uniqueModuloCase(in.o())) {
            try {
                const std::string path = in.path("c10.c3d");
                in.o().write(path);
                ezc3d::c3d back(path);
                ContentOpts co; co.channelNames = false; co.trimA = true; co.trimB = false;   // the loaded object must hold the trimmed strings
                std::string d = diffContent(a, takeSnap(back), co);
                if (!d.empty()) r.fail("object does not save/reload to the same content after refused calls: " + d);
                r.tags.insert("saved-and-reloaded");
            } catch (...) { Outcome e = classifyCurrentException(); r.fail("save/reload after refused calls threw " + e.cls + ": " + e.what); }
        }
    }
    return r;
}
}
