// C13 No memory error on any valid use: the union workload (histories of C01-C12, incl. refused calls, print, save, load,
// destruction) executed under AddressSanitizer + _GLIBCXX_ASSERTIONS. The monitors abort the process; the driver turns that into a violation.
#include "fileoracle.hpp"
namespace vf {
const char *ntC13 = "non-trivial = case that loads a file, or contains a refused call, or destroys an object holding frames; distinct by case text";
CaseResult runC13(const Case &c, RunCtx &ctx) {
    CaseResult r;
    bool loadsFile = false;
    size_t refused = 0, frames = 0;
    {
        Interp in(ctx, "C13");
        in.allowUndeclaredFrames = false;
        CountingListener L; in.L = &L;
        in.run(c);
        refused = L.refused;
        for (auto &o : c.ops) if (o.code == "load" || o.code == "reload") loadsFile = true;
        frames = in.o().data().nbFrames();
        // observe everything, print, save, copy caller-visible values, reload, then destroy all objects
        Snap s = takeSnap(in.o());
        Op pr; pr.code = "print"; in.exec(pr);
        std::string why;
        if (framesComplete(in.o(), &why) && withinCapacity(s, &why)) {
            Op sv; sv.code = "reload"; Outcome o = in.exec(sv);
            if (!o.threw) { Snap s2 = takeSnap(in.o()); (void)s2; }
        }
        // standalone value objects: copy, assign, destroy
        if (in.o().data().nbFrames()) {
            ezc3d::DataNS::Frame copy; copy.add(in.o().data().frame(0));
            ezc3d::DataNS::Points3dNS::Points pts(in.o().data().frame(0).points());
            ezc3d::DataNS::AnalogsNS::Analogs an(in.o().data().frame(0).analogs());
            std::vector<ezc3d::DataNS::Frame> v(3, copy); v.resize(1);
        }
        ezc3d::ParametersNS::Parameters pcopy(in.o().parameters());
        ezc3d::Header hcopy(in.o().header());
    }   // <- destruction of the interpreter, the object and every caller-side frame
    r.nontrivial = loadsFile || refused > 0 || frames > 0;
    if (loadsFile) r.tags.insert("loads-a-file"); if (refused) r.tags.insert("refused-calls"); if (frames) r.tags.insert("destroys-object-with-frames");
    r.counters["refused_calls"] = static_cast<long long>(refused);
    return r;
}
}
