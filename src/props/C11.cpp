// C11 Look-ups return the right element or throw the documented error.
#include "prophelp.hpp"
namespace vf {
const char *ntC11 = "non-trivial = case with an out-of-range index, an absent / case-variant / space-padded name, or a wrong-type read; distinct by case text; (accessor family, index/name class, outcome) counted in case_classes";

namespace {
struct Probe {           // result of one accessor call
    bool threw = false; std::string cls, desc; const void *addr = nullptr;
};
template <class F> Probe probe(F f) {
    Probe p;
    try { f(p); } catch (...) { Outcome o = classifyCurrentException(); p.threw = true; p.cls = o.cls; }
    return p;
}
std::string ptDesc(const ezc3d::DataNS::Points3dNS::Point &p) {
    return q(p.name()) + hex32(floatToBits(p.x())) + hex32(floatToBits(p.y())) + hex32(floatToBits(p.z())) + hex32(floatToBits(p.residual()));
}
std::string ptDesc(const SPoint &p) { return q(p.name) + hex32(p.v[0]) + hex32(p.v[1]) + hex32(p.v[2]) + hex32(p.v[3]); }
std::string chDesc(const ezc3d::DataNS::AnalogsNS::Channel &c) { return q(c.name()) + hex32(floatToBits(c.data())); }
std::string chDesc(const SChan &c) { return q(c.name) + hex32(c.v); }

size_t pickIndex(long long cls, long long k, size_t size) {
    if (cls < 0) cls = -cls; if (k < 0) k = -k;
    switch (cls % 6) {
    case 0: return size ? static_cast<size_t>(k) % size : 0;
    case 1: return size;
    case 2: return size + 1;
    case 3: return (static_cast<size_t>(1) << 32) + static_cast<size_t>(k % 3);
    case 4: return SIZE_MAX;
    default: return SIZE_MAX - 1;
    }
}
std::string pickName(long long cls, long long k, const std::vector<std::string> &names) {
    if (cls < 0) cls = -cls; if (k < 0) k = -k;
    std::string base = names.empty() ? std::string("nothing") : names[static_cast<size_t>(k) % names.size()];
    switch (cls % 6) {
    case 0: return base;
    case 1: return "no_such_name_" + std::to_string(k);
    case 2: { std::string s = base; for (char &c : s) { if (c >= 'a' && c <= 'z') { c = static_cast<char>(c - 32); return s; } if (c >= 'A' && c <= 'Z') { c = static_cast<char>(c + 32); return s; } } return s + "x"; }
    case 3: return base + "  ";
    case 4: return "";
    default: return names.empty() ? std::string("nothing") : names.back();
    }
}
const char *idxClassName(long long cls) { static const char *n[] = {"in-range", "size", "size+1", "2^32", "2^64-1", "2^64-2"}; if (cls < 0) cls = -cls; return n[cls % 6]; }
const char *nameClassName(long long cls) { static const char *n[] = {"present", "absent", "case-variant", "space-padded", "empty", "last"}; if (cls < 0) cls = -cls; return n[cls % 6]; }

struct L11 : Listener {
    CaseResult &r; size_t looks = 0, negative = 0;
    explicit L11(CaseResult &rr) : r(rr) {}
    void fail(size_t i, const std::string &m) { r.fail("op " + std::to_string(i) + ": " + m); stop = true; }

    // generic checkers ---------------------------------------------------------------------------
    bool checkIdx(size_t i, const std::string &what, size_t idx, size_t size, const std::string &expectDesc, const Probe &p) {
        if (idx < size) {
            if (p.threw) { fail(i, what + "(" + std::to_string(idx) + ") threw " + p.cls + " although size is " + std::to_string(size)); return false; }
            if (p.desc != expectDesc) { fail(i, what + "(" + std::to_string(idx) + ") returned " + p.desc.substr(0, 200) + " instead of " + expectDesc.substr(0, 200)); return false; }
        } else {
            ++negative;
            if (!p.threw) { fail(i, what + "(" + std::to_string(idx) + ") returned normally although size is " + std::to_string(size)); return false; }
            if (p.cls != "out_of_range") { fail(i, what + "(" + std::to_string(idx) + ") threw " + p.cls + " instead of out_of_range"); return false; }
        }
        return true;
    }
    bool checkName(size_t i, const std::string &what, const std::string &name, const std::vector<std::string> &names,
                   const std::vector<std::string> &descs, const Probe &p, const void *posAddr) {
        size_t found = SIZE_MAX;
        for (size_t j = 0; j < names.size(); ++j) if (names[j] == name) { found = j; break; }
        if (found != SIZE_MAX) {
            if (p.threw) { fail(i, what + "(" + q(name) + ") threw " + p.cls + " although element " + std::to_string(found) + " has exactly that name"); return false; }
            if (p.desc != descs[found]) { fail(i, what + "(" + q(name) + ") returned " + p.desc.substr(0, 200) + " instead of the first match " + descs[found].substr(0, 200)); return false; }
            if (posAddr && p.addr && posAddr != p.addr) { fail(i, what + "(" + q(name) + ") and the positional accessor return different objects"); return false; }
        } else {
            ++negative;
            if (!p.threw) { fail(i, what + "(" + q(name) + ") returned " + p.desc.substr(0, 100) + " although no element has exactly that name"); return false; }
            if (p.cls != "invalid_argument") { fail(i, what + "(" + q(name) + ") threw " + p.cls + " instead of invalid_argument"); return false; }
        }
        return true;
    }

    void after(Interp &in, const Op &op, size_t i, const Outcome &o) override {
        const std::string &k = op.code;
        if ((k == "declp" || k == "decla") && !o.skipped && !o.threw) { checkDeclared(in, op, i, o); return; }
        if (k != "look") return;
        ++looks;
        long long fam = op.arg(0) < 0 ? -op.arg(0) : op.arg(0), cls = op.arg(1), kk = op.arg(2) < 0 ? -op.arg(2) : op.arg(2);
        fam %= 15;
        const ezc3d::c3d &c = in.o();
        Snap s = takeSnap(c);
        const bool useSlot = (kk / 7) % 4 == 3;          // sometimes look into the caller's own (standalone) frame
        const size_t nF = s.frames.size();
        const ezc3d::DataNS::Frame *fr = nullptr; SFrame sfr;
        if (useSlot || nF == 0) { fr = &in.slots[static_cast<size_t>(kk) % 4]; sfr = takeFrame(*fr); }
        else { size_t f = static_cast<size_t>(kk) % nF; fr = &c.data().frame(f); sfr = s.frames[f]; }
        std::string tag;
        switch (fam) {
        case 0: {   // Data::frame(idx)
            size_t idx = pickIndex(cls, kk, nF);
            Probe p = probe([&](Probe &P) { const auto &F = c.data().frame(idx); P.desc = frameText(takeFrame(F)); P.addr = &F; });
            tag = std::string("Data::frame/") + idxClassName(cls);
            if (!checkIdx(i, "Data::frame", idx, nF, idx < nF ? frameText(s.frames[idx]) : "", p)) return;
            if (!p.threw && p.addr != &c.data().frames()[idx]) { fail(i, "Data::frame(idx) is not frames()[idx]"); return; }
            {   // standalone copy of the data set: non-const accessor
                ezc3d::DataNS::Data copy(c.data());
                Probe p2 = probe([&](Probe &P) { auto &F = copy.frame_nonConst(idx); P.desc = frameText(takeFrame(F)); });
                if (!checkIdx(i, "Data::frame_nonConst", idx, nF, idx < nF ? frameText(s.frames[idx]) : "", p2)) return;
                if (copy.nbFrames() != nF) { fail(i, "copy of Data has a different number of frames"); return; }
            }
            break; }
        case 1: {   // Points::point(idx), point_nonConst(idx)
            size_t n = sfr.pts.size(), idx = pickIndex(cls, kk, n);
            tag = std::string("Points::point(idx)/") + idxClassName(cls);
            Probe p = probe([&](Probe &P) { const auto &e = fr->points().point(idx); P.desc = ptDesc(e); P.addr = &e; });
            if (!checkIdx(i, "Points::point", idx, n, idx < n ? ptDesc(sfr.pts[idx]) : "", p)) return;
            Probe p2 = probe([&](Probe &P) { auto &e = fr->points_nonConst().point_nonConst(idx); P.desc = ptDesc(e); P.addr = &e; });
            if (!checkIdx(i, "Points::point_nonConst", idx, n, idx < n ? ptDesc(sfr.pts[idx]) : "", p2)) return;
            if (!p.threw && (p.addr != p2.addr || p.addr != &fr->points().points()[idx])) { fail(i, "point(idx), point_nonConst(idx) and points()[idx] are different objects"); return; }
            if (!p.threw) {      // data() returns x, y, z, residual of the same point
                const auto &e = fr->points().point(idx); std::vector<float> dv = e.data();
                if (dv.size() != 4 || floatToBits(dv[0]) != floatToBits(e.x()) || floatToBits(dv[1]) != floatToBits(e.y()) || floatToBits(dv[2]) != floatToBits(e.z()) || floatToBits(dv[3]) != floatToBits(e.residual()))
                    { fail(i, "Point::data() differs from x(), y(), z(), residual()"); return; }
            }
            break; }
        case 2: {   // Points by name
            std::vector<std::string> names, descs; for (auto &e : sfr.pts) { names.push_back(e.name); descs.push_back(ptDesc(e)); }
            std::string name = pickName(cls, kk, names);
            tag = std::string("Points::point(name)/") + nameClassName(cls);
            size_t found = SIZE_MAX; for (size_t j = 0; j < names.size(); ++j) if (names[j] == name) { found = j; break; }
            const void *pos = found != SIZE_MAX ? &fr->points().point(found) : nullptr;
            Probe p = probe([&](Probe &P) { const auto &e = fr->points().point(name); P.desc = ptDesc(e); P.addr = &e; });
            if (!checkName(i, "Points::point", name, names, descs, p, pos)) return;
            Probe p2 = probe([&](Probe &P) { auto &e = fr->points_nonConst().point_nonConst(name); P.desc = ptDesc(e); P.addr = &e; });
            if (!checkName(i, "Points::point_nonConst", name, names, descs, p2, pos)) return;
            std::vector<std::string> idxs; for (size_t j = 0; j < names.size(); ++j) idxs.push_back(std::to_string(j));
            Probe p3 = probe([&](Probe &P) { P.desc = std::to_string(fr->points().pointIdx(name)); });
            if (!checkName(i, "Points::pointIdx", name, names, idxs, p3, nullptr)) return;
            break; }
        case 3: {   // Analogs::subframe(idx)
            size_t n = sfr.subs.size(), idx = pickIndex(cls, kk, n);
            tag = std::string("Analogs::subframe/") + idxClassName(cls);
            auto sd = [](const ezc3d::DataNS::AnalogsNS::SubFrame &sf) { std::string d; for (size_t c2 = 0; c2 < sf.nbChannels(); ++c2) d += chDesc(sf.channel(c2)) + ";"; return d; };
            std::string want; if (idx < n) for (auto &ch : sfr.subs[idx]) want += chDesc(ch) + ";";
            Probe p = probe([&](Probe &P) { const auto &e = fr->analogs().subframe(idx); P.desc = sd(e); P.addr = &e; });
            if (!checkIdx(i, "Analogs::subframe", idx, n, want, p)) return;
            Probe p2 = probe([&](Probe &P) { auto &e = fr->analogs_nonConst().subframe_nonConst(idx); P.desc = sd(e); P.addr = &e; });
            if (!checkIdx(i, "Analogs::subframe_nonConst", idx, n, want, p2)) return;
            if (!p.threw && (p.addr != p2.addr || p.addr != &fr->analogs().subframes()[idx])) { fail(i, "subframe(idx) variants return different objects"); return; }
            break; }
        case 4: case 5: {   // SubFrame::channel(idx) / by name
            if (sfr.subs.empty()) { tag = "SubFrame/no-subframe"; break; }
            size_t sidx = static_cast<size_t>(kk / 3) % sfr.subs.size();
            const auto &SF = fr->analogs().subframe(sidx); auto &SFn = fr->analogs_nonConst().subframe_nonConst(sidx);
            const auto &ms = sfr.subs[sidx];
            if (fam == 4) {
                size_t n = ms.size(), idx = pickIndex(cls, kk, n);
                tag = std::string("SubFrame::channel(idx)/") + idxClassName(cls);
                Probe p = probe([&](Probe &P) { const auto &e = SF.channel(idx); P.desc = chDesc(e); P.addr = &e; });
                if (!checkIdx(i, "SubFrame::channel", idx, n, idx < n ? chDesc(ms[idx]) : "", p)) return;
                Probe p2 = probe([&](Probe &P) { auto &e = SFn.channel_nonConst(idx); P.desc = chDesc(e); P.addr = &e; });
                if (!checkIdx(i, "SubFrame::channel_nonConst", idx, n, idx < n ? chDesc(ms[idx]) : "", p2)) return;
                if (!p.threw && (p.addr != p2.addr || p.addr != &SF.channels()[idx])) { fail(i, "channel(idx) variants return different objects"); return; }
            } else {
                std::vector<std::string> names, descs, idxs; for (size_t j = 0; j < ms.size(); ++j) { names.push_back(ms[j].name); descs.push_back(chDesc(ms[j])); idxs.push_back(std::to_string(j)); }
                std::string name = pickName(cls, kk, names);
                tag = std::string("SubFrame::channel(name)/") + nameClassName(cls);
                size_t found = SIZE_MAX; for (size_t j = 0; j < names.size(); ++j) if (names[j] == name) { found = j; break; }
                const void *pos = found != SIZE_MAX ? &SF.channel(found) : nullptr;
                Probe p = probe([&](Probe &P) { const auto &e = SF.channel(name); P.desc = chDesc(e); P.addr = &e; });
                if (!checkName(i, "SubFrame::channel", name, names, descs, p, pos)) return;
                Probe p2 = probe([&](Probe &P) { auto &e = SFn.channel_nonConst(name); P.desc = chDesc(e); P.addr = &e; });
                if (!checkName(i, "SubFrame::channel_nonConst", name, names, descs, p2, pos)) return;
                Probe p3 = probe([&](Probe &P) { P.desc = std::to_string(SF.channelIdx(name)); });
                if (!checkName(i, "SubFrame::channelIdx", name, names, idxs, p3, nullptr)) return;
            }
            break; }
        case 6: {   // Parameters::group(idx) (+ nonConst on a copy)
            size_t n = s.groups.size(), idx = pickIndex(cls, kk, n);
            tag = std::string("Parameters::group(idx)/") + idxClassName(cls);
            auto gd = [](const ezc3d::ParametersNS::GroupNS::Group &g) { return q(g.name()) + "#" + std::to_string(g.nbParameters()) + (g.isLocked() ? "L" : "") + q(g.description()); };
            std::string want = idx < n ? q(s.groups[idx].name) + "#" + std::to_string(s.groups[idx].params.size()) + (s.groups[idx].locked ? "L" : "") + q(s.groups[idx].desc) : "";
            Probe p = probe([&](Probe &P) { const auto &e = c.parameters().group(idx); P.desc = gd(e); P.addr = &e; });
            if (!checkIdx(i, "Parameters::group", idx, n, want, p)) return;
            if (!p.threw && p.addr != &c.parameters().groups()[idx]) { fail(i, "group(idx) is not groups()[idx]"); return; }
            ezc3d::ParametersNS::Parameters copy(c.parameters());
            Probe p2 = probe([&](Probe &P) { auto &e = copy.group_nonConst(idx); P.desc = gd(e); });
            if (!checkIdx(i, "Parameters::group_nonConst", idx, n, want, p2)) return;
            break; }
        case 7: {   // Parameters::group(name), groupIdx
            std::vector<std::string> names, descs, idxs;
            for (size_t j = 0; j < s.groups.size(); ++j) { names.push_back(s.groups[j].name); descs.push_back(q(s.groups[j].name) + "#" + std::to_string(s.groups[j].params.size())); idxs.push_back(std::to_string(j)); }
            std::string name = pickName(cls, kk, names);
            tag = std::string("Parameters::group(name)/") + nameClassName(cls);
            size_t found = SIZE_MAX; for (size_t j = 0; j < names.size(); ++j) if (names[j] == name) { found = j; break; }
            const void *pos = found != SIZE_MAX ? &c.parameters().group(found) : nullptr;
            Probe p = probe([&](Probe &P) { const auto &e = c.parameters().group(name); P.desc = q(e.name()) + "#" + std::to_string(e.nbParameters()); P.addr = &e; });
            if (!checkName(i, "Parameters::group", name, names, descs, p, pos)) return;
            Probe p3 = probe([&](Probe &P) { P.desc = std::to_string(c.parameters().groupIdx(name)); });
            if (!checkName(i, "Parameters::groupIdx", name, names, idxs, p3, nullptr)) return;
            ezc3d::ParametersNS::Parameters copy(c.parameters());
            Probe p2 = probe([&](Probe &P) { auto &e = copy.group_nonConst(name); P.desc = q(e.name()) + "#" + std::to_string(e.nbParameters()); });
            if (!checkName(i, "Parameters::group_nonConst", name, names, descs, p2, nullptr)) return;
            break; }
        case 8: case 9: case 11: {   // Group::parameter(idx) / (name) / valuesAs*
            if (s.groups.empty()) break;
            size_t gi = static_cast<size_t>(kk / 5) % s.groups.size();
            const auto &G = c.parameters().group(gi); const SGroup &mg = s.groups[gi];
            if (fam == 8) {
                size_t n = mg.params.size(), idx = pickIndex(cls, kk, n);
                tag = std::string("Group::parameter(idx)/") + idxClassName(cls);
                Probe p = probe([&](Probe &P) { const auto &e = G.parameter(idx); P.desc = paramText(takeParam(e)); P.addr = &e; });
                if (!checkIdx(i, "Group::parameter", idx, n, idx < n ? paramText(mg.params[idx]) : "", p)) return;
                if (!p.threw && p.addr != &G.parameters()[idx]) { fail(i, "parameter(idx) is not parameters()[idx]"); return; }
                ezc3d::ParametersNS::GroupNS::Group copy(G);
                Probe p2 = probe([&](Probe &P) { auto &e = copy.parameter_nonConst(idx); P.desc = paramText(takeParam(e)); });
                if (!checkIdx(i, "Group::parameter_nonConst", idx, n, idx < n ? paramText(mg.params[idx]) : "", p2)) return;
            } else if (fam == 9) {
                std::vector<std::string> names, descs, idxs;
                for (size_t j = 0; j < mg.params.size(); ++j) { names.push_back(mg.params[j].name); descs.push_back(paramText(mg.params[j])); idxs.push_back(std::to_string(j)); }
                std::string name = pickName(cls, kk, names);
                tag = std::string("Group::parameter(name)/") + nameClassName(cls);
                size_t found = SIZE_MAX; for (size_t j = 0; j < names.size(); ++j) if (names[j] == name) { found = j; break; }
                const void *pos = found != SIZE_MAX ? &G.parameter(found) : nullptr;
                Probe p = probe([&](Probe &P) { const auto &e = G.parameter(name); P.desc = paramText(takeParam(e)); P.addr = &e; });
                if (!checkName(i, "Group::parameter", name, names, descs, p, pos)) return;
                Probe p3 = probe([&](Probe &P) { P.desc = std::to_string(G.parameterIdx(name)); });
                if (!checkName(i, "Group::parameterIdx", name, names, idxs, p3, nullptr)) return;
                ezc3d::ParametersNS::GroupNS::Group copy(G);
                Probe p2 = probe([&](Probe &P) { auto &e = copy.parameter_nonConst(name); P.desc = paramText(takeParam(e)); });
                if (!checkName(i, "Group::parameter_nonConst", name, names, descs, p2, nullptr)) return;
            } else {
                if (mg.params.empty()) break;
                size_t pi = static_cast<size_t>(kk) % mg.params.size();
                const auto &P0 = G.parameter(pi); int t = mg.params[pi].type;
                tag = "Parameter::valuesAs*/type" + std::to_string(t);
                struct { const char *n; int type; } acc[] = {{"valuesAsByte", 1}, {"valuesAsInt", 2}, {"valuesAsFloat", 4}, {"valuesAsString", -1}};
                for (auto &a : acc) {
                    Probe p = probe([&](Probe &) {
                        if (a.type == 1) P0.valuesAsByte(); else if (a.type == 2) P0.valuesAsInt(); else if (a.type == 4) P0.valuesAsFloat(); else P0.valuesAsString(); });
                    if (a.type == t) { if (p.threw) { fail(i, std::string(a.n) + " threw " + p.cls + " on a parameter of its own type"); return; } }
                    else {
                        ++negative;
                        if (!p.threw) { fail(i, std::string(a.n) + " returned normally on a parameter of type " + std::to_string(t)); return; }
                        if (p.cls != "invalid_argument") { fail(i, std::string(a.n) + " threw " + p.cls + " instead of invalid_argument"); return; }
                    }
                }
            }
            break; }
        case 10: {  // header events
            const ezc3d::Header &h = c.header();
            int which = static_cast<int>(kk % 3);
            size_t n = which == 1 ? 9 : 18, idx = pickIndex(cls, kk, n);
            tag = std::string("Header::events") + (which == 0 ? "Time" : which == 1 ? "Display" : "Label") + "/" + idxClassName(cls);
            std::string want;
            if (idx < n) want = which == 0 ? hex32(s.h.eventsTime[idx]) : which == 1 ? std::to_string(s.h.eventsDisplay[idx]) : q(s.h.eventsLabel[idx]);
            Probe p = probe([&](Probe &P) {
                if (which == 0) P.desc = hex32(floatToBits(h.eventsTime(idx))); else if (which == 1) P.desc = std::to_string(h.eventsDisplay(idx)); else P.desc = q(h.eventsLabel(idx)); });
            if (!checkIdx(i, "Header::events*", idx, n, want, p)) return;
            break; }
        case 13: {  // look-ups interleaved with renames through the non-const accessors, on a caller-owned copy of the points / channels
            tag = "lookup-after-rename";
            ezc3d::DataNS::Points3dNS::Points P(fr->points());
            const size_t n = P.nbPoints();
            if (n >= 1) {
                const size_t a = static_cast<size_t>(kk) % n;
                const std::string oldName = P.point(a).name();
                size_t first = SIZE_MAX; for (size_t j = 0; j < n; ++j) if (P.point(j).name() == oldName) { first = j; break; }
                Probe p0 = probe([&](Probe &Q) { Q.desc = std::to_string(P.pointIdx(oldName)); });
                if (p0.threw || p0.desc != std::to_string(first)) { fail(i, "pointIdx(" + q(oldName) + ") before the rename is wrong"); return; }
                // rename that element: the old name must now resolve to the next element carrying it, or be refused
                P.point_nonConst(first).name("renamed_by_caller");
                size_t next = SIZE_MAX; for (size_t j = 0; j < n; ++j) if (P.point(j).name() == oldName) { next = j; break; }
                Probe p1 = probe([&](Probe &Q) { Q.desc = std::to_string(P.pointIdx(oldName)); });
                if (next == SIZE_MAX) { ++negative; if (!p1.threw || p1.cls != "invalid_argument") { fail(i, "after renaming the only point named " + q(oldName) + ", pointIdx still returns " + (p1.threw ? p1.cls : p1.desc)); return; } }
                else if (p1.threw || p1.desc != std::to_string(next)) { fail(i, "after a rename pointIdx(" + q(oldName) + ") should be " + std::to_string(next)); return; }
                Probe p2 = probe([&](Probe &Q) { Q.desc = std::to_string(P.pointIdx("renamed_by_caller")); });
                size_t rn = SIZE_MAX; for (size_t j = 0; j < n; ++j) if (P.point(j).name() == "renamed_by_caller") { rn = j; break; }
                if (p2.threw || p2.desc != std::to_string(rn)) { fail(i, "the new name is not found after a rename through point_nonConst"); return; }
                // give an EARLIER element the name of a later one: the first match must now be the earlier element
                if (n >= 2) {
                    const size_t late = n - 1; const std::string lateName = P.point(late).name();
                    Probe p3 = probe([&](Probe &Q) { Q.desc = std::to_string(P.pointIdx(lateName)); });
                    (void)p3;
                    P.point_nonConst(0).name(lateName);
                    Probe p4 = probe([&](Probe &Q) { Q.desc = std::to_string(P.pointIdx(lateName)); Q.addr = &static_cast<const ezc3d::DataNS::Points3dNS::Points &>(P).point(lateName); });
                    if (p4.threw || p4.desc != "0" || p4.addr != &P.point(0)) { fail(i, "after giving element 0 the name " + q(lateName) + " the look-up by name does not return the first element with that name"); return; }
                }
            }
            if (!sfr.subs.empty()) {
                ezc3d::DataNS::AnalogsNS::SubFrame S(fr->analogs().subframe(0));
                const size_t m = S.nbChannels();
                if (m >= 1) {
                    const size_t a = static_cast<size_t>(kk) % m; const std::string oldName = S.channel(a).name();
                    size_t first = SIZE_MAX; for (size_t j = 0; j < m; ++j) if (S.channel(j).name() == oldName) { first = j; break; }
                    Probe p0 = probe([&](Probe &Q) { Q.desc = std::to_string(S.channelIdx(oldName)); });
                    if (p0.threw || p0.desc != std::to_string(first)) { fail(i, "channelIdx before the rename is wrong"); return; }
                    S.channel_nonConst(first).name("renamed_channel");
                    size_t next = SIZE_MAX; for (size_t j = 0; j < m; ++j) if (S.channel(j).name() == oldName) { next = j; break; }
                    Probe p1 = probe([&](Probe &Q) { Q.desc = std::to_string(S.channelIdx(oldName)); });
                    if (next == SIZE_MAX) { ++negative; if (!p1.threw || p1.cls != "invalid_argument") { fail(i, "after renaming the only channel named " + q(oldName) + ", channelIdx still finds it"); return; } }
                    else if (p1.threw || p1.desc != std::to_string(next)) { fail(i, "after a rename channelIdx(" + q(oldName) + ") is wrong"); return; }
                }
            }
            break; }
        case 12: {  // trailing spaces: standalone Point/Points and Channel/SubFrame
            std::string base = pointNameOf(kk), padded = base + std::string(1 + static_cast<size_t>(kk % 3), ' ');
            if (kk % 5 == 0) { base = ""; padded = std::string(1 + static_cast<size_t>(kk % 4), ' '); }     // a name made of spaces only trims to the empty name
            tag = "standalone-trailing-spaces";
            ezc3d::DataNS::Points3dNS::Point pt; pt.name(padded); pt.x(1.f);
            ezc3d::DataNS::Points3dNS::Point other; other.name("other");
            ezc3d::DataNS::Points3dNS::Points ps; ps.point(other); ps.point(pt);
            if (ps.point(1).name() != base) { fail(i, "a point named " + q(padded) + " is stored as " + q(ps.point(1).name())); return; }
            Probe p = probe([&](Probe &P) { P.desc = std::to_string(ps.pointIdx(base)); });
            if (p.threw || p.desc != "1") { fail(i, "a point named with trailing spaces is not found under the trimmed name"); return; }
            ezc3d::DataNS::Points3dNS::Point ctor(padded);       // name given to the constructor
            ezc3d::DataNS::Points3dNS::Points ps2; ps2.point(ctor);
            Probe pc = probe([&](Probe &P) { P.desc = std::to_string(ps2.pointIdx(base)); });
            if (pc.threw) { r.tags.insert("point-ctor-name-not-trimmed"); }
            ezc3d::DataNS::AnalogsNS::Channel ch; ch.name(padded); ch.data(2.f);
            ezc3d::DataNS::AnalogsNS::SubFrame sf; sf.channel(ch);
            Probe p2 = probe([&](Probe &P) { P.desc = std::to_string(sf.channelIdx(base)); });
            if (p2.threw || p2.desc != "0" || sf.channel(0).name() != base) { fail(i, "a channel named with trailing spaces is not stored/found under the trimmed name"); return; }
            break; }
        case 14: {  // containers built by the caller from known elements (names incl. case variants and repeats): every look-up against a list model
            tag = "caller-built-containers";
            Rng rg(static_cast<uint64_t>(kk) * 2654435761u + static_cast<uint64_t>(cls < 0 ? -cls : cls));
            const std::string b0 = paramNameOf(kk % 15), b1 = paramNameOf((kk + 1) % 15);
            std::string lo = b0; for (auto &ch : lo) if (ch >= 'A' && ch <= 'Z') ch = static_cast<char>(ch - 'A' + 'a');
            std::string up = b0; for (auto &ch : up) if (ch >= 'a' && ch <= 'z') ch = static_cast<char>(ch - 'a' + 'A');
            const std::vector<std::string> pool = {b0, b1, lo, up, "other", b0 + "x"};
            const size_t nAdds = 2 + rg.below(7);
            // (a) Group: add = replace the parameter of exactly that name in place, else append
            {
                ezc3d::ParametersNS::GroupNS::Group G("CALLER_GROUP");
                std::vector<std::pair<std::string, int>> model;
                for (size_t a = 0; a < nAdds; ++a) {
                    const std::string nm = pool[rg.below(pool.size())]; const int val = static_cast<int>(a) + 1;
                    ezc3d::ParametersNS::GroupNS::Parameter P(nm); P.set(std::vector<int>{val});
                    G.parameter(P);
                    bool rep = false; for (auto &m : model) if (m.first == nm) { m.second = val; rep = true; break; }
                    if (!rep) model.push_back({nm, val});
                    if (G.nbParameters() != model.size()) { fail(i, "a group built from " + std::to_string(a + 1) + " adds holds " + std::to_string(G.nbParameters()) + " parameters instead of " + std::to_string(model.size()) + " (names differing by letter case are different names)"); return; }
                }
                for (size_t j = 0; j < model.size(); ++j) {
                    Probe pp = probe([&](Probe &Q) { const auto &E = static_cast<const ezc3d::ParametersNS::GroupNS::Group &>(G).parameter(j); Q.desc = q(E.name()) + std::to_string(E.valuesAsInt().at(0)); Q.addr = &E; });
                    const std::string want = q(model[j].first) + std::to_string(model[j].second);
                    if (pp.threw || pp.desc != want) { fail(i, "Group::parameter(" + std::to_string(j) + ") of a caller-built group returns " + (pp.threw ? pp.cls : pp.desc) + " instead of " + want); return; }
                }
                for (auto &nm : pool) {
                    size_t first = SIZE_MAX; for (size_t j = 0; j < model.size(); ++j) if (model[j].first == nm) { first = j; break; }
                    Probe pi = probe([&](Probe &Q) { Q.desc = std::to_string(G.parameterIdx(nm)); });
                    Probe pn = probe([&](Probe &Q) { const auto &E = static_cast<const ezc3d::ParametersNS::GroupNS::Group &>(G).parameter(nm); Q.desc = q(E.name()) + std::to_string(E.valuesAsInt().at(0)); Q.addr = &E; });
                    if (first == SIZE_MAX) {
                        ++negative;
                        if (!pi.threw || pi.cls != "invalid_argument" || !pn.threw || pn.cls != "invalid_argument") { fail(i, "caller-built group: look-up of the absent name " + q(nm) + " did not throw invalid_argument (" + (pi.threw ? pi.cls : pi.desc) + " / " + (pn.threw ? pn.cls : pn.desc) + ")"); return; }
                    } else {
                        const std::string want = q(model[first].first) + std::to_string(model[first].second);
                        if (pi.threw || pi.desc != std::to_string(first)) { fail(i, "caller-built group: parameterIdx(" + q(nm) + ") gives " + (pi.threw ? pi.cls : pi.desc) + " instead of " + std::to_string(first)); return; }
                        if (pn.threw || pn.desc != want || pn.addr != &static_cast<const ezc3d::ParametersNS::GroupNS::Group &>(G).parameter(first)) { fail(i, "caller-built group: parameter(" + q(nm) + ") gives " + (pn.threw ? pn.cls : pn.desc) + " instead of " + want); return; }
                    }
                }
            }
            // (b) Parameters: adding a group of a new name appends it; names differing by case are different groups
            {
                ezc3d::ParametersNS::Parameters PS; const size_t n0 = PS.nbGroups();
                std::vector<std::string> model;
                for (size_t a = 0; a < nAdds; ++a) {
                    const std::string nm = pool[rg.below(pool.size())];
                    ezc3d::ParametersNS::GroupNS::Group G(nm); ezc3d::ParametersNS::GroupNS::Parameter P("P" + std::to_string(a)); P.set(std::vector<int>{static_cast<int>(a)}); G.parameter(P);
                    PS.group(G);
                    if (std::find(model.begin(), model.end(), nm) == model.end()) model.push_back(nm);
                    if (PS.nbGroups() != n0 + model.size()) { fail(i, "Parameters built by the caller holds " + std::to_string(PS.nbGroups() - n0) + " added groups instead of " + std::to_string(model.size())); return; }
                }
                for (auto &nm : pool) {
                    size_t first = SIZE_MAX; for (size_t j = 0; j < model.size(); ++j) if (model[j] == nm) { first = j; break; }
                    Probe pi = probe([&](Probe &Q) { Q.desc = std::to_string(PS.groupIdx(nm)); });
                    Probe pn = probe([&](Probe &Q) { const auto &E = static_cast<const ezc3d::ParametersNS::Parameters &>(PS).group(nm); Q.desc = q(E.name()); Q.addr = &E; });
                    if (first == SIZE_MAX) {
                        ++negative;
                        if (!pi.threw || pi.cls != "invalid_argument" || !pn.threw || pn.cls != "invalid_argument") { fail(i, "caller-built Parameters: look-up of the absent group " + q(nm) + " did not throw invalid_argument"); return; }
                    } else {
                        if (pi.threw || pi.desc != std::to_string(n0 + first)) { fail(i, "caller-built Parameters: groupIdx(" + q(nm) + ") gives " + (pi.threw ? pi.cls : pi.desc) + " instead of " + std::to_string(n0 + first)); return; }
                        if (pn.threw || pn.desc != q(nm) || pn.addr != &static_cast<const ezc3d::ParametersNS::Parameters &>(PS).group(n0 + first)) { fail(i, "caller-built Parameters: group(" + q(nm) + ") gives " + (pn.threw ? pn.cls : pn.desc)); return; }
                    }
                }
            }
            // (c) Points and SubFrame: every add appends (repeated names stay; the first one is found)
            {
                ezc3d::DataNS::Points3dNS::Points PT; ezc3d::DataNS::AnalogsNS::SubFrame SF; std::vector<std::string> model;
                for (size_t a = 0; a < nAdds; ++a) {
                    const std::string nm = pool[rg.below(pool.size())];
                    ezc3d::DataNS::Points3dNS::Point pt; pt.name(nm); pt.x(static_cast<float>(a)); PT.point(pt);
                    ezc3d::DataNS::AnalogsNS::Channel ch; ch.name(nm); ch.data(static_cast<float>(a)); SF.channel(ch);
                    model.push_back(nm);
                }
                const auto &CPT = PT; const auto &CSF = SF;
                if (CPT.nbPoints() != model.size() || CSF.nbChannels() != model.size()) { fail(i, "caller-built Points/SubFrame do not hold one element per add"); return; }
                for (auto &nm : pool) {
                    size_t first = SIZE_MAX; for (size_t j = 0; j < model.size(); ++j) if (model[j] == nm) { first = j; break; }
                    Probe p1 = probe([&](Probe &Q) { Q.desc = std::to_string(CPT.pointIdx(nm)); const auto &E = CPT.point(nm); Q.desc += "/" + std::to_string(static_cast<long long>(E.x())); Q.addr = &E; });
                    Probe p2 = probe([&](Probe &Q) { Q.desc = std::to_string(CSF.channelIdx(nm)); const auto &E = CSF.channel(nm); Q.desc += "/" + std::to_string(static_cast<long long>(E.data())); Q.addr = &E; });
                    if (first == SIZE_MAX) {
                        ++negative;
                        if (!p1.threw || p1.cls != "invalid_argument" || !p2.threw || p2.cls != "invalid_argument") { fail(i, "caller-built Points/SubFrame: look-up of the absent name " + q(nm) + " did not throw invalid_argument"); return; }
                    } else {
                        const std::string want = std::to_string(first) + "/" + std::to_string(first);
                        if (p1.threw || p1.desc != want || p1.addr != &CPT.point(first)) { fail(i, "caller-built Points: look-up of " + q(nm) + " gives " + (p1.threw ? p1.cls : p1.desc) + " instead of " + want); return; }
                        if (p2.threw || p2.desc != want || p2.addr != &CSF.channel(first)) { fail(i, "caller-built SubFrame: look-up of " + q(nm) + " gives " + (p2.threw ? p2.cls : p2.desc) + " instead of " + want); return; }
                    }
                }
            }
            // (d) one Parameter object set several times with changing type: its own type is the type of the LAST set; exactly the accessor of
            //     that type returns the values, every other one throws invalid_argument
            {
                ezc3d::ParametersNS::GroupNS::Parameter P("REUSED");
                const size_t steps = 2 + rg.below(4); int lastType = -1; size_t lastCount = 0; long long lastFirst = 0;
                for (size_t st = 0; st < steps; ++st) {
                    const int ty = static_cast<int>(rg.below(3)); const bool scalar = rg.below(2) == 0; const size_t n = scalar ? 1 : 1 + rg.below(3);
                    const long long v0 = static_cast<long long>(rg.below(200)) - 100;
                    if (ty == 0) { if (scalar) P.set(static_cast<int>(v0)); else { std::vector<int> v(n, static_cast<int>(v0)); P.set(v); } }
                    else if (ty == 1) { if (scalar) P.set(static_cast<float>(v0) + 0.5f); else { std::vector<float> v(n, static_cast<float>(v0) + 0.5f); P.set(v); } }
                    else { if (scalar) P.set(std::string("s") + std::to_string(v0)); else { std::vector<std::string> v(n, std::string("s") + std::to_string(v0)); P.set(v); } }
                    lastType = ty; lastCount = n; lastFirst = v0;
                }
                const auto &CP = P;
                Probe pi = probe([&](Probe &Q) { const auto &v = CP.valuesAsInt(); Q.desc = std::to_string(v.size()) + ":" + (v.empty() ? std::string() : std::to_string(v[0])); });
                Probe pf = probe([&](Probe &Q) { const auto &v = CP.valuesAsFloat(); Q.desc = std::to_string(v.size()) + ":" + (v.empty() ? std::string() : std::to_string(static_cast<long long>(v[0] * 2))); });
                Probe ps = probe([&](Probe &Q) { const auto &v = CP.valuesAsString(); Q.desc = std::to_string(v.size()) + ":" + (v.empty() ? std::string() : v[0]); });
                Probe pb = probe([&](Probe &Q) { const auto &v = CP.valuesAsByte(); Q.desc = std::to_string(v.size()); });
                const std::string wantI = std::to_string(lastCount) + ":" + std::to_string(lastFirst), wantF = std::to_string(lastCount) + ":" + std::to_string(lastFirst * 2 + 1), wantS = std::to_string(lastCount) + ":s" + std::to_string(lastFirst);
                const Probe *own = lastType == 0 ? &pi : (lastType == 1 ? &pf : &ps); const std::string &want = lastType == 0 ? wantI : (lastType == 1 ? wantF : wantS);
                static const char *tn[] = {"int", "float", "string"};
                if (own->threw || own->desc != want) { fail(i, std::string("a Parameter last set with ") + tn[lastType] + " values (after " + std::to_string(steps - 1) + " earlier sets of other types) answers " + (own->threw ? own->cls : own->desc) + " to the accessor of its own type instead of " + want); return; }
                const Probe *others[] = {&pi, &pf, &ps, &pb};
                for (int k2 = 0; k2 < 4; ++k2) {
                    if (others[k2] == own) continue;
                    ++negative;
                    if (!others[k2]->threw || others[k2]->cls != "invalid_argument") { fail(i, std::string("a Parameter last set with ") + tn[lastType] + " values lets accessor no. " + std::to_string(k2) + " (0 int, 1 float, 2 string, 3 byte) of another type return " + (others[k2]->threw ? others[k2]->cls : others[k2]->desc) + " instead of throwing invalid_argument"); return; }
                }
            }
            break; }
        }
        if (!tag.empty()) r.tags.insert(tag);
    }

    void checkDeclared(Interp &in, const Op &op, size_t i, const Outcome &o) {
        std::string given = o.note.substr(0, o.note.find('|'));
        std::string trimmed = rtrim(given);
        const bool isP = op.code == "declp";
        Shape s = shapeOf(in.o());
        const auto &labels = isP ? s.plabels : s.alabels;
        if (labels.empty() || labels.back() != trimmed) { fail(i, "declared " + q(given) + " but the last label is " + (labels.empty() ? std::string("<none>") : q(labels.back()))); return; }
        if (given != trimmed) r.tags.insert(std::string("declared-with-trailing-spaces/") + (s.nFrames ? "data" : "no-data"));
        for (size_t f = 0; f < in.o().data().nbFrames(); ++f) {
            const auto &fr = in.o().data().frame(f);
            Probe p = probe([&](Probe &P) {
                if (isP) P.desc = std::to_string(fr.points().pointIdx(trimmed));
                else { for (size_t k2 = 0; k2 < fr.analogs().nbSubframes(); ++k2) P.desc = std::to_string(fr.analogs().subframe(k2).channelIdx(trimmed)); }
            });
            if (p.threw) { fail(i, "declared " + q(given) + ": frame " + std::to_string(f) + " does not find it under the trimmed name (" + p.cls + ")"); return; }
        }
    }
};
}

CaseResult runC11(const Case &c, RunCtx &ctx) {
    CaseResult r;
    Interp in(ctx, "C11");
    L11 L(r); in.L = &L;
    in.run(c);
    r.nontrivial = L.negative > 0;
    r.counters["lookups"] = static_cast<long long>(L.looks); r.counters["negative_lookups"] = static_cast<long long>(L.negative);
    return r;
}
}
