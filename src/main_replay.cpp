// replay <case file> [prop]           : runs one saved case without any PBT library. exit 0 pass, 1 fail, 3 discard, 4 known finding, 2 usage
// replay --batch <list file> <stats>  : runs every case listed (one path per line); writes JSON stats; stops at the first failure (exit 1)
#include <cstdio>
#include <iostream>
#include <map>
#include <set>
#include <sstream>
#include "common/props.hpp"
#include "common/filemodel.hpp"
using namespace vf;

static std::string jsonStr(const std::string &s) {
    std::string o = "\"";
    for (unsigned char c : s) {
        if (c == '"') o += "\\\""; else if (c == '\\') o += "\\\\"; else if (c == '\n') o += "\\n";
        else if (c < 0x20 || c >= 0x7F) { char b[8]; snprintf(b, sizeof b, "\\u%04x", c); o += b; }
        else o.push_back(static_cast<char>(c));
    }
    return o + "\"";
}

static int batch(const char *listPath, const char *statsPath, const char *propOverride) {
    std::string list; if (!readFileText(listPath, list)) { fprintf(stderr, "cannot read list\n"); return 2; }
    std::istringstream is(list); std::string path;
    long long evaluations = 0, discards = 0; std::set<uint64_t> nt; std::map<std::string, long long> tags, counters, known;
    std::vector<std::string> samples; std::string failCase, failMsg, ntRule;
    RunCtx ctx = makeCtx("batch");
    int rc = 0;
    while (std::getline(is, path)) {
        if (path.empty()) continue;
        std::string text, err; Case c;
        if (!readFileText(path, text) || !parseCase(text, c, err)) { fprintf(stderr, "cannot read case %s: %s\n", path.c_str(), err.c_str()); return 2; }
        if (propOverride && *propOverride) c.prop = propOverride;
        const PropDef *p = findProp(c.prop);
        if (!p) { fprintf(stderr, "unknown property %s\n", c.prop.c_str()); return 2; }
        ntRule = p->ntRule ? p->ntRule : "";
        writeFileText(ctx.scratch + "/current.case", text);
        CaseResult r;
        caseCpuGuard(true);
        try { r = p->run(c, ctx); } catch (const std::exception &e) { r = CaseResult(); r.fail(std::string("exception escaped the property body: ") + e.what()); }
        caseCpuGuard(false);
        if (r.v == CaseResult::DISCARD) { ++discards; tags["discard:" + r.msg.substr(0, 60)]++; continue; }
        ++evaluations;
        for (auto &t : r.tags) tags[t]++;
        for (auto &kv : r.counters) counters[kv.first] += kv.second;
        if (r.nontrivial && nt.insert(fnv(r.ntKey.empty() ? text : r.ntKey)).second && samples.size() < 3) samples.push_back(text);
        if (r.v == CaseResult::FAIL) {
            if (!r.knownFinding.empty() && ctx.isOpen(r.knownFinding)) { known[r.knownFinding]++; continue; }
            failCase = path; failMsg = r.msg; rc = 1; break;
        }
    }
    std::ostringstream js;
    js << "{\"evaluations\":" << evaluations << ",\"discards\":" << discards << ",\"distinct_nontrivial\":" << nt.size() << ",\"ok\":" << (rc == 0 ? "true" : "false")
       << ",\"fail_msg\":" << jsonStr(failMsg) << ",\"fail_case\":" << jsonStr(failCase) << ",\"nt_rule\":" << jsonStr(ntRule) << ",\"tags\":{";
    bool first = true;
    for (auto &kv : tags) { js << (first ? "" : ",") << jsonStr(kv.first) << ":" << kv.second; first = false; }
    js << "},\"counters\":{"; first = true;
    for (auto &kv : counters) { js << (first ? "" : ",") << jsonStr(kv.first) << ":" << kv.second; first = false; }
    js << "},\"known\":{"; first = true;
    for (auto &kv : known) { js << (first ? "" : ",") << jsonStr(kv.first) << ":" << kv.second; first = false; }
    js << "},\"nt_keys\":["; first = true;
    for (auto k : nt) { js << (first ? "" : ",") << "\"" << k << "\""; first = false; }
    js << "],\"samples\":["; first = true;
    for (auto &s : samples) { js << (first ? "" : ",") << jsonStr(s); first = false; }
    js << "]}\n";
    writeFileText(statsPath, js.str());
    return rc;
}

int main(int argc, char **argv) {
    if (argc < 2) { fprintf(stderr, "usage: replay <case> [prop] | replay --batch <list> <stats> [prop]\n"); return 2; }
    if (std::string(argv[1]) == "--dump") {      // replay --dump <case> <out>: writes the file described by the f* ops of the case
        if (argc < 4) return 2;
        std::string t, e; Case c0; if (!readFileText(argv[2], t) || !parseCase(t, c0, e)) return 2;
        return writeBytes(argv[3], fileBytesOf(c0.ops)) ? 0 : 2;
    }
    if (std::string(argv[1]) == "--batch") { if (argc < 4) return 2; return batch(argv[2], argv[3], argc >= 5 ? argv[4] : nullptr); }
    std::string text, err; Case c;
    if (!readFileText(argv[1], text) || !parseCase(text, c, err)) { fprintf(stderr, "cannot read case: %s\n", err.c_str()); return 2; }
    if (argc >= 3) c.prop = argv[2];
    const PropDef *p = findProp(c.prop);
    if (!p) { fprintf(stderr, "unknown property %s\n", c.prop.c_str()); return 2; }
    RunCtx ctx = makeCtx("replay-" + c.prop);
    CaseResult r;
    caseCpuGuard(true);
    try { r = p->run(c, ctx); } catch (const std::exception &e) { r = CaseResult(); r.fail(std::string("exception escaped the property body: ") + e.what()); }
    caseCpuGuard(false);
    if (r.v == CaseResult::FAIL) {
        const bool known = !r.knownFinding.empty() && ctx.isOpen(r.knownFinding);
        printf("%s property=%s %s\n", known ? "KNOWN" : "FAIL", c.prop.c_str(), r.msg.c_str());
        if (!r.knownFinding.empty()) printf("known-finding-class=%s%s\n", r.knownFinding.c_str(), known ? "" : " (not listed as open)");
        return known ? 4 : 1;
    }
    if (r.v == CaseResult::DISCARD) { printf("DISCARD %s\n", r.msg.c_str()); return 3; }
    printf("PASS property=%s nontrivial=%d tags=", c.prop.c_str(), int(r.nontrivial));
    for (auto &t : r.tags) printf("%s,", t.c_str());
    printf("\n");
    return 0;
}
