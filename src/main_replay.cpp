// replay <case file> : runs one saved case without any PBT library. exit 0 pass/known, 1 fail, 3 discard, 2 usage
#include <cstdio>
#include <iostream>
#include "common/props.hpp"
using namespace vf;
int main(int argc, char **argv) {
    if (argc < 2) { fprintf(stderr, "usage: replay <case>\n"); return 2; }
    std::string text, err; Case c;
    if (!readFileText(argv[1], text) || !parseCase(text, c, err)) { fprintf(stderr, "cannot read case: %s\n", err.c_str()); return 2; }
    if (argc >= 3) c.prop = argv[2];
    const PropDef *p = findProp(c.prop);
    if (!p) { fprintf(stderr, "unknown property %s\n", c.prop.c_str()); return 2; }
    RunCtx ctx = makeCtx("replay-" + c.prop);
    CaseResult r = p->run(c, ctx);
    if (r.v == CaseResult::FAIL) {
        const bool known = !r.knownFinding.empty() && ctx.isOpen(r.knownFinding);
        printf("%s property=%s %s\n", known ? "KNOWN" : "FAIL", c.prop.c_str(), r.msg.c_str());
        if (!r.knownFinding.empty()) printf("known-finding-class=%s%s\n", r.knownFinding.c_str(), known ? "" : " (not listed as open)");
        return known ? 4 : 1;
    }
    if (r.v == CaseResult::DISCARD) { printf("DISCARD %s\n", r.msg.c_str()); return 3; }
    printf("PASS property=%s nontrivial=%d tags=", c.prop.c_str(), int(r.nontrivial));
    for (auto &t : r.tags) printf("%s,", t.c_str());
    printf("\n");
    return 0;
}
