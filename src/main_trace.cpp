// trace --batch <list> <out> : writes "<case path>\t<digest of full trace>" per case, and the full trace of every case to <out>.full
// Linked against a library built by the project's own CMake in one configuration (C19).
#include <cstdio>
#include <sstream>
#include "common/trace.hpp"
using namespace vf;
int main(int argc, char **argv) {
    if (argc < 4 || std::string(argv[1]) != "--batch") { fprintf(stderr, "usage: trace --batch <list> <out>\n"); return 2; }
    std::string list; if (!readFileText(argv[2], list)) return 2;
    std::istringstream is(list); std::string path;
    std::string scratch = makeScratchDir("trace");
    FILE *out = fopen(argv[3], "w"); if (!out) return 2;
    std::string fullPath = std::string(argv[3]) + ".full";
    FILE *full = fopen(fullPath.c_str(), "w");
    TraceOpts o; o.fullSnapshots = true;
    while (std::getline(is, path)) {
        if (path.empty()) continue;
        std::string text, err; Case c;
        if (!readFileText(path, text) || !parseCase(text, c, err)) { fprintf(stderr, "cannot read %s\n", path.c_str()); return 2; }
        std::string t = traceOf(c, scratch, o);
        fprintf(out, "%s\t%016llx\n", path.c_str(), static_cast<unsigned long long>(fnv(t)));
        if (full) fprintf(full, "== %s\n%s", path.c_str(), t.c_str());
    }
    fclose(out); if (full) fclose(full);
    return 0;
}
