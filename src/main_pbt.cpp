// rapidcheck front-end: pbt <id> [--n N] [--size S] [--seed X] [--stats file] [--emit dir] [--work dir]
#include <rapidcheck.h>
#include <unistd.h>
#include <cstdio>
#include <cstdlib>
#include <cstring>
#include <map>
#include <set>
#include <sstream>
#include "common/props.hpp"
#include "gen/gens.hpp"

using namespace vf;

static std::string jsonStr(const std::string &s) {
    std::string o = "\"";
    for (unsigned char c : s) {
        if (c == '"') o += "\\\""; else if (c == '\\') o += "\\\\"; else if (c == '\n') o += "\\n";
        else if (c < 0x20 || c >= 0x7F) { char b[8]; snprintf(b, sizeof b, "\\u%04x", c); o += b; }
        else o.push_back(static_cast<char>(c));
    }
    return o + "\"";
}

int main(int argc, char **argv) {
    if (argc < 2) { fprintf(stderr, "usage: pbt <id> [--n N] [--size S] [--seed X] [--stats f] [--emit dir] [--work dir]\n"); return 2; }
    std::string id = argv[1], statsPath, emitDir, workDir = "/verif/.work";
    long long n = 1000, size = 100, seed = 1;
    for (int i = 2; i + 1 < argc; i += 2) {
        std::string k = argv[i], v = argv[i + 1];
        if (k == "--n") n = atoll(v.c_str()); else if (k == "--size") size = atoll(v.c_str()); else if (k == "--seed") seed = atoll(v.c_str());
        else if (k == "--stats") statsPath = v; else if (k == "--emit") emitDir = v; else if (k == "--work") workDir = v;
    }
    setenv("VERIF_WORK", workDir.c_str(), 1);
    const PropDef *p = findProp(id);
    if (!p) { fprintf(stderr, "unknown property %s\n", id.c_str()); return 2; }
    RunCtx ctx = makeCtx("pbt-" + id);
    rc::Gen<Case> gen = genFor(id, ctx.tier);
    {
        std::ostringstream rp;
        rp << "seed=" << seed << " max_success=" << n << " max_size=" << size << " max_discard_ratio=20";
        setenv("RC_PARAMS", rp.str().c_str(), 1);
    }
    const std::string curPath = ctx.scratch + "/current.case", failPath = workDir + "/" + id + "." + std::to_string(getpid()) + ".last_fail.case";
    remove(failPath.c_str());
    long long evaluations = 0, discards = 0, emitted = 0;
    std::set<uint64_t> ntKeys; std::map<std::string, long long> tags, known, counters;
    std::vector<std::string> samples, ntSamples;
    bool failed = false; std::string failMsg;
    long long shrinkRuns = 0; const long long shrinkBudget = 4000;
    bool ok = rc::check(id, [&] {
        Case c = *gen;
        c.prop = id;
        const std::string text = toText(c);
        if (!emitDir.empty()) {
            char name[64]; snprintf(name, sizeof name, "/%06lld.case", emitted++);
            writeFileText(emitDir + name, text);
            return;
        }
        if (!failed) writeFileText(curPath, text);
        if (failed && ++shrinkRuns > shrinkBudget) return;      // bound the shrinking effort: further candidates "pass"
        CaseResult r;
        caseCpuGuard(true);
        try { r = p->run(c, ctx); }
        catch (const std::exception &e) { r = CaseResult(); r.fail(std::string("exception escaped the property body: ") + e.what()); }
        caseCpuGuard(false);
        if (!failed) {
            if (r.v == CaseResult::DISCARD) { ++discards; tags["discard:" + r.msg]++; }
            else {
                ++evaluations;
                for (auto &t : r.tags) tags[t]++;
                for (auto &kv : r.counters) counters[kv.first] += kv.second;
                if (r.nontrivial) {
                    uint64_t key = r.ntKey.empty() ? fnv(text) : fnv(r.ntKey);
                    if (ntKeys.insert(key).second && ntSamples.size() < 3) ntSamples.push_back(text);
                }
                if (samples.size() < 2) samples.push_back(text);
            }
        }
        if (r.v == CaseResult::DISCARD) RC_DISCARD(r.msg);
        if (r.v == CaseResult::FAIL) {
            if (!r.knownFinding.empty() && ctx.isOpen(r.knownFinding)) { if (!failed) known[r.knownFinding]++; return; }
            if (!failed) fprintf(stderr, "FIRST-FAIL %s: %s\n", id.c_str(), r.msg.substr(0, 500).c_str());
            failed = true; failMsg = r.msg;
            { std::string m1 = r.msg; for (char &ch : m1) if (ch == '\n' || ch == '\r') ch = ' '; writeFileText(failPath, text + "# " + m1 + "\n"); }
            RC_FAIL(r.msg);
        }
    });
    if (!statsPath.empty()) {
        std::ostringstream js;
        js << "{\"property\":" << jsonStr(id) << ",\"evaluations\":" << evaluations << ",\"discards\":" << discards
           << ",\"distinct_nontrivial\":" << ntKeys.size() << ",\"seed\":" << seed << ",\"n\":" << n << ",\"size\":" << size
           << ",\"ok\":" << (ok ? "true" : "false") << ",\"fail_msg\":" << jsonStr(failMsg) << ",\"fail_case\":" << jsonStr(failed ? failPath : "")
           << ",\"nt_rule\":" << jsonStr(p->ntRule) << ",\"tags\":{";
        bool first = true;
        for (auto &kv : tags) { js << (first ? "" : ",") << jsonStr(kv.first) << ":" << kv.second; first = false; }
        js << "},\"counters\":{"; first = true;
        for (auto &kv : counters) { js << (first ? "" : ",") << jsonStr(kv.first) << ":" << kv.second; first = false; }
        js << "},\"known\":{"; first = true;
        for (auto &kv : known) { js << (first ? "" : ",") << jsonStr(kv.first) << ":" << kv.second; first = false; }
        js << "},\"nt_keys\":[";
        first = true;
        for (auto k : ntKeys) { js << (first ? "" : ",") << "\"" << k << "\""; first = false; }
        js << "],\"samples\":[";
        first = true;
        for (auto &s : ntSamples) { js << (first ? "" : ",") << jsonStr(s); first = false; }
        for (auto &s : samples) { js << (first ? "" : ",") << jsonStr(s); first = false; }
        js << "]}\n";
        writeFileText(statsPath, js.str());
    }
    return ok ? 0 : 1;
}
