// Generators of API scripts (C01, C03, C05-C10, C13, C14 ...).
#include "gens.hpp"
#include "../common/interp.hpp"

namespace vf {
using namespace gh;
namespace g = rc::gen;

struct ScriptCfg {
    bool deviations = false;      // frames / columns that deviate from the declared shape
    bool badParams = false;       // inconsistent dims, untyped, unnamed, unknown groups for lock
    bool callerReuse = false;     // fmut / resubmission / colmut
    bool reload = false;          // save+load in the middle
    bool extend = true;           // indexed frame calls beyond the end
    bool lateRates = false;       // rate changes after frames exist
    bool lateDecl = true;         // declp/decla/pcol/acol after frames exist
    bool print = false;
    bool fillAtEnd = true;        // append 'fillgaps' at the end
    int maxFrames = 12;
    int maxSetup = 14;
    int maxEdits = 10;
    bool ragged = false;
    bool nameVariants = false;    // parameter / group names that are case variants of other names, names and descriptions beyond what a file holds
    bool subCountDeviations = false; // frames with one sub-frame fewer / more (accepted; the header must follow when the data stay uniform)
    bool framesParamMid = false;  // POINT:FRAMES edited by hand in the middle of a history (C13: header and data then disagree on the frame count)
    bool resample = false;        // ANALOG:RATE changed and every frame replaced by one with the new sub-frame count
    bool workingCopies = false;   // copies of stored frames taken by the caller, one Frame object refilled with add()
    bool framesParam = false;     // POINT:FRAMES edited by hand at the end
    bool keepRefused = false;     // a parameter whose set() was refused is handed over all the same (it still holds its old content)
    bool selfParam = false;       // a parameter of the object handed back to it by reference
    bool raggedSub = false;       // frames whose later sub-frame holds one channel fewer (accepted by frame(): only sub-frame 0 is checked)
};

static rc::Gen<long long> nameIdx() { return sized(0, 40); }
static rc::Gen<long long> trail() { return g::elementOf(std::vector<long long>{0, 0, 0, 0, 1, 2, 3}); }
static rc::Gen<long long> descLen() {
    return g::weightedOneOf<long long>({{5, g::just<long long>(0)}, {4, sized(1, 40)}, {2, g::elementOf(std::vector<long long>{126, 127, 128, 129, 200, 254, 255})}, {2, uni(1, 255)}});
}
static rc::Gen<long long> dimEntry() {
    return g::weightedOneOf<long long>({{11, g::elementOf(std::vector<long long>{1, 2, 3})}, {3, g::just<long long>(0)},
                                        {3, g::elementOf(std::vector<long long>{4, 5, 8})}, {2, g::elementOf(std::vector<long long>{16, 32, 100})},
                                        {1, g::elementOf(std::vector<long long>{255, 128, 127})}});
}
static rc::Gen<Op> gParam(bool bad, bool variants = false, bool keepRefused = false) {
    auto grp = variants ? g::weightedOneOf<long long>({{2, g::just<long long>(0)}, {2, g::just<long long>(1)}, {1, g::just<long long>(2)}, {6, sized(3, 9)}, {1, g::map(sized(0, 9), [](long long v) { return v + 700000; })}, {1, g::map(sized(0, 9), [](long long v) { return v + 600000; })}, {1, g::map(sized(0, 9), [](long long v) { return v + 900000; })}})
                        : g::weightedOneOf<long long>({{2, g::just<long long>(0)}, {2, g::just<long long>(1)}, {1, g::just<long long>(2)}, {6, sized(3, 9)}});
    auto name = variants ? g::weightedOneOf<long long>({{12, sized(0, 14)}, {1, g::just<long long>(-1)}, {3, g::map(sized(0, 14), [](long long v) { return v + 700000; })}, {1, g::map(sized(0, 14), [](long long v) { return v + 800000; })}})
              : bad ? g::weightedOneOf<long long>({{12, sized(0, 14)}, {1, g::just<long long>(-1)}}) : sized(0, 14);
    auto type = bad ? g::weightedOneOf<long long>({{12, uni(0, 2)}, {1, g::just<long long>(3)}}) : uni(0, 2);
    auto delta = bad ? g::weightedOneOf<long long>({{5, g::just<long long>(0)}, {2, g::elementOf(std::vector<long long>{-1, 1, 2, -2, 7})}, {1, g::just<long long>(-999999)}, {2, g::elementOf(std::vector<long long>{-888881, -888882, -888883})}})
                     : g::just<long long>(0);
    // nd == 0: delta is the element count
    auto nd = g::weightedOneOf<long long>({{4, g::just<long long>(0)}, {3, g::just<long long>(1)}, {3, g::just<long long>(2)}, {2, g::just<long long>(3)}, {2, uni(4, 7)}});
    return g::mapcat(nd, [=](long long ndv) {
        std::vector<rc::Gen<long long>> a = {grp, name, type, keepRefused ? g::weightedOneOf<long long>({{3, uni(0, 1)}, {1, uni(2, 3)}, {2, uni(6, 7)}}) : g::weightedOneOf<long long>({{3, uni(0, 1)}, {1, uni(2, 3)}}), variants ? g::weightedOneOf<long long>({{15, descLen()}, {1, g::elementOf(std::vector<long long>{256, 300, 400})}}) : descLen(), seedv(),
                                             ndv == 0 ? g::weightedOneOf<long long>({{3, g::just<long long>(1)}, {3, sized(0, 12)}, {1, g::just<long long>(0)}}) : delta,
                                             g::just(ndv)};
        for (long long i = 0; i < ndv; ++i) a.push_back(dimEntry());
        if (ndv == 2) {
            // occasionally a large matrix: the record is longer than 32767 bytes (still within the 16-bit offset)
            std::vector<rc::Gen<long long>> big(a.begin(), a.begin() + 8);
            big.push_back(g::elementOf(std::vector<long long>{128, 200, 255})); big.push_back(g::elementOf(std::vector<long long>{70, 100, 110}));
            return g::weightedOneOf<Op>({{12, op("param", a)}, {1, op("param", big)}});
        }
        if (bad && ndv >= 5) {
            // occasionally only large power-of-two entries: the product overflows 32 bits
            std::vector<rc::Gen<long long>> b(a.begin(), a.begin() + 8);
            for (long long i = 0; i < ndv; ++i) b.push_back(g::elementOf(std::vector<long long>{16, 32, 64, 128, 128, 255}));
            return g::oneOf(op("param", a), op("param", a), op("param", b));
        }
        return op("param", a);
    });
}
static rc::Gen<Op> gSetupOp(const ScriptCfg &c, bool rates = true) {
    return g::weightedOneOf<Op>({
        {6, op("declp", {nameIdx(), trail()})},
        {5, op("decla", {nameIdx(), trail()})},
        {3, rates ? op("prate", {uni(0, kNumRates - 1)}) : op("obs", {})},
        {3, rates ? op("arate", {sized(0, 9)}) : op("obs", {})},
        {2, (rates && c.lateRates) ? op("pratex", {uni(0, kNumRates - 1), uni(-9, 9)}) : op("obs", {})},
        {6, gParam(c.badParams, c.nameVariants, c.keepRefused)},
        {1, op("lockg", {c.badParams ? sized(0, 12) : sized(0, 9)})},
        {1, op("unlockg", {c.badParams ? sized(0, 12) : sized(0, 9)})},
    });
}
static rc::Gen<long long> frameDev(const ScriptCfg &c) {
    if (c.raggedSub) return g::weightedOneOf<long long>({{8, g::just<long long>(0)}, {1, g::just<long long>(12)}, {2, g::just<long long>(13)}});
    if (!c.deviations && c.subCountDeviations) return g::weightedOneOf<long long>({{8, g::just<long long>(0)}, {1, g::just<long long>(12)}, {2, g::elementOf(std::vector<long long>{9, 10})}});
    if (!c.deviations) return g::weightedOneOf<long long>({{9, g::just<long long>(0)}, {1, g::just<long long>(12)}});
    return g::weightedOneOf<long long>({{6, g::just<long long>(0)}, {1, g::just<long long>(12)}, {5, uni(1, 10)}, {1, g::just<long long>(14)}, {1, g::just<long long>(11)}});   // 11 = permuted points (known finding KF-D21 while open)
}
static rc::Gen<std::vector<Op>> gFrameAdd(const ScriptCfg &c) {
    // build a frame in a slot and submit it
    auto mode = c.extend ? g::weightedOneOf<long long>({{7, g::just<long long>(0)}, {3, g::just<long long>(1)}, {1, g::just<long long>(2)}})
                         : g::weightedOneOf<long long>({{7, g::just<long long>(0)}, {3, g::just<long long>(1)}});
    auto slot = uni(0, 3);
    return g::mapcat(slot, [=](long long s) {
        std::vector<rc::Gen<std::vector<Op>>> parts;
        parts.push_back(g::map(op("fbuild", {g::just(s), frameDev(c), seedv()}), [](Op o) { return std::vector<Op>{o}; }));
        parts.push_back(g::map(op("fsub", {g::just(s), mode, sized(0, 20)}), [](Op o) { return std::vector<Op>{o}; }));
        return concat(parts);
    });
}
static rc::Gen<long long> colDev(const ScriptCfg &c, bool analog) {
    if (!c.deviations) return analog ? g::weightedOneOf<long long>({{8, g::just<long long>(0)}, {1, g::just<long long>(13)}, {1, g::just<long long>(14)}}) : g::weightedOneOf<long long>({{7, g::just<long long>(0)}, {1, g::just<long long>(12)}});   // 12: accepted, the spare point is ignored
    std::vector<long long> devs = {1, 2, 3, 4, 5, 6};
    if (!analog) devs.push_back(12);
    if (c.ragged) devs.push_back(7);
    if (c.ragged && !analog) devs.push_back(11);
    if (analog) { devs.push_back(9); devs.push_back(10); if (c.ragged) devs.push_back(11); devs.push_back(13); devs.push_back(14); }
    return g::weightedOneOf<long long>({{5, g::just<long long>(0)}, {5, g::elementOf(devs)}});
}
static rc::Gen<Op> gEditOp(const ScriptCfg &c) {
    std::vector<std::pair<size_t, rc::Gen<Op>>> w = {
        {4, op("pcol", {sized(0, 30), uni(0, 2), colDev(c, false), seedv()})},
        {4, op("acol", {sized(0, 30), uni(0, 2), colDev(c, true), seedv()})},
        {4, gParam(c.badParams, c.nameVariants, c.keepRefused)},
        {1, op("lockg", {sized(0, 9)})},
        {1, op("unlockg", {sized(0, 9)})},
    };
    if (c.lateDecl) { w.push_back({3, op("declp", {nameIdx(), trail()})}); w.push_back({3, op("decla", {nameIdx(), trail()})}); }
    w.push_back({2, op("selfsub", {sized(0, 20), uni(0, c.extend ? 2 : 1), sized(0, 20)})});     // a stored frame handed back to its own object
    w.push_back({1, op("pflip", {sized(3, 9), sized(0, 14), seedv()})});
    if (c.lateRates) { w.push_back({1, op("prate", {uni(0, kNumRates - 1)})}); w.push_back({1, op("arate", {sized(0, 9)})}); w.push_back({2, op("pratex", {uni(0, kNumRates - 1), uni(-9, 9)})}); }
    if (c.callerReuse) {
        w.push_back({4, op("fmut", {uni(0, 3), uni(0, 4), seedv()})});
        w.push_back({5, op("fsub", {uni(0, 3), uni(0, c.extend ? 2 : 1), sized(0, 20)})});
        w.push_back({2, op("colmut", {seedv()})});
        w.push_back({2, op("pcol", {sized(0, 30), uni(0, 2), g::just<long long>(8), seedv()})});
    }
    if (c.workingCopies) {
        w.push_back({2, op("refill", {uni(0, 3), frameDev(c), seedv()})});       // one Frame object refilled with add() (README style)
        w.push_back({1, op("slotcopy", {uni(0, 3), sized(0, 20)})});             // a working copy of a stored frame
    }
    if (c.resample) w.push_back({2, op("resample", {uni(0, 5), seedv()})});
    if (c.framesParamMid) w.push_back({1, op("pframes", {g::elementOf(std::vector<long long>{-3, -1, -1, 1, 2})})});
    if (c.reload) w.push_back({2, op("reload", {})});
    if (c.print) w.push_back({1, op("print", {})});
    if (c.selfParam && c.callerReuse) w.push_back({2, op("selfelem", {uni(0, 3), uni(0, 2), sized(0, 12), g::weightedOneOf<long long>({{3, uni(0, 3)}, {2, uni(4, 39)}})})});
    if (c.selfParam) w.push_back({2, op("selfparam", {sized(0, 12), sized(0, 12), sized(3, 40)})});
    if (c.badParams) w.push_back({2, op("preuse", {sized(3, 9), sized(0, 14), seedv()})});
    if (c.badParams) w.push_back({1, op("dimq", {g::weightedOneOf<long long>({{2, uni(0, 3)}, {3, sized(2, 40)}}), g::weightedOneOf<long long>({{2, g::just<long long>(0)}, {3, uni(1, 3)}}), dimEntry(), dimEntry(), dimEntry()})});
    return weighted<Op>(w);
}
static rc::Gen<std::vector<Op>> one(rc::Gen<Op> o) { return g::map(o, [](Op x) { return std::vector<Op>{x}; }); }

static rc::Gen<std::vector<Op>> framesPart(const ScriptCfg &c) {
    // 0..maxFrames frame additions, flattened
    const double k = (c.maxFrames < 1 ? 1 : c.maxFrames) / 100.0;
    auto lst = g::scale(k, g::container<std::vector<std::vector<Op>>>(g::scale(1.0 / k, gFrameAdd(c))));
    return g::map(lst, [](std::vector<std::vector<Op>> v) { std::vector<Op> o; for (auto &x : v) o.insert(o.end(), x.begin(), x.end()); return o; });
}

rc::Gen<std::vector<Op>> genScriptOps(const ScriptCfg &c) {
    // structured: setup, frames, edits (with more frames interleaved), [fill]
    // a working copy of stored frame k is handed back at the same position (or refilled) and edited afterwards
    auto copyBack = g::mapcat(g::pair(uni(0, 3), sized(0, 20)), [](std::pair<long long, long long> sk) {
        const long long s = sk.first, k = sk.second;
        return g::weightedOneOf<std::vector<Op>>({
            {2, concat({one(op("slotcopy", {g::just(s), g::just(k)})), one(op("fsub", {g::just(s), g::just<long long>(1), g::just(k)})), one(op("fmut", {g::just(s), uni(0, 4), seedv()})), one(op("fmut", {g::just(s), uni(0, 4), seedv()}))})},
            {2, concat({one(op("slotcopy", {g::just(s), g::just(k)})), one(op("refill", {g::just(s), g::just<long long>(0), seedv()})), one(op("fsub", {g::just(s), uni(0, 2), sized(0, 20)}))})},
            {1, concat({one(op("slotcopy", {g::just(s), g::just(k)})), one(op("fmut", {g::just(s), g::just<long long>(3), seedv()})), one(op("fsub", {g::just(s), uni(0, 1), sized(0, 20)}))})}});
    });
    // POINT:FRAMES lowered by hand, then a point / channel column with as many frames as the HEADER now announces
    auto staleCount = concat({one(op("pframes", {g::elementOf(std::vector<long long>{-1, -1, -2, 2})})),
                              one(g::oneOf(op("pcol", {sized(0, 30), uni(0, 2), g::just<long long>(2), seedv()}), op("acol", {sized(0, 30), uni(0, 2), g::just<long long>(2), seedv()}),
                                           op("declp", {nameIdx(), trail()}), op("decla", {nameIdx(), trail()}), op("pcol", {sized(0, 30), uni(0, 2), g::just<long long>(0), seedv()})))});
    std::vector<std::pair<size_t, rc::Gen<std::vector<Op>>>> mix = {{6, one(gEditOp(c))}, {4, gFrameAdd(c)}, {2, one(gSetupOp(c, c.lateRates))}};
    if (c.workingCopies) mix.push_back({1, copyBack});
    if (c.framesParamMid) mix.push_back({1, staleCount});
    auto mixed = weighted<std::vector<Op>>(mix);
    const double k = (c.maxEdits < 1 ? 1 : c.maxEdits) / 100.0;
    auto editsL = g::scale(k, g::container<std::vector<std::vector<Op>>>(g::scale(1.0 / k, mixed)));
    auto edits = g::map(editsL, [](std::vector<std::vector<Op>> v) { std::vector<Op> o; for (auto &x : v) o.insert(o.end(), x.begin(), x.end()); return o; });
    // setup: declarations / parameters in any order, with the two rates placed at random positions (mostly present)
    auto maybe = [](rc::Gen<Op> o, int pct) {
        return g::mapcat(uni(0, 99), [o, pct](long long k) { return k < pct ? one(o) : g::just(std::vector<Op>()); });
    };
    auto pr = maybe(op("prate", {uni(0, kNumRates - 1)}), 88), ar = maybe(op("arate", {sized(0, 9)}), 80);
    auto seg = [c]() { return ops(gSetupOp(c, true), c.maxSetup / 3 + 1); };   // rates may change several times before frames exist
    // a burst of declarations so that most objects carry points and/or channels
    auto declP = ops(op("declp", {nameIdx(), trail()}), c.maxFrames > 20 ? 12 : 5);
    auto declA = ops(op("decla", {nameIdx(), trail()}), c.maxFrames > 20 ? 8 : 4);
    auto setup = g::mapcat(uni(0, 5), [=](long long k) {
        if (k == 0) return concat({seg(), ar, declA, seg(), pr, declP, seg()});
        if (k == 1) return concat({pr, ar, seg(), declP, seg(), declA});
        if (k == 2) return concat({declP, seg(), pr, seg(), ar, seg()});          // points only unless seg declares channels
        return concat({declP, seg(), pr, declA, seg(), ar, seg()});
    });
    std::vector<rc::Gen<std::vector<Op>>> parts = {setup, framesPart(c), edits};
    if (c.fillAtEnd) parts.push_back(one(op("gapfill", {seedv()})));
    if (c.framesParam) parts.push_back(maybe(op("pframes", {g::elementOf(std::vector<long long>{-3, -1, 1, 2, 10})}), 30));
    return concat(parts);
}

static ScriptCfg cfgFor(const std::string &id, int tier) {
    ScriptCfg c;
    if (tier) { c.maxFrames = 40; c.maxSetup = 24; c.maxEdits = 20; }
    if (id == "C01") { c.extend = true; c.resample = true; }
    else if (id == "C03") { c.reload = true; c.subCountDeviations = true; c.resample = true; }     // accepted frames with another sub-frame count are saved too
    else if (id == "C05") { c.resample = true; c.deviations = true; c.reload = true; c.lateRates = true; c.fillAtEnd = false; c.badParams = true; }
    else if (id == "C06") { c.framesParamMid = true; c.lateRates = true; c.workingCopies = true; c.fillAtEnd = false; c.callerReuse = false; c.deviations = true; }   // accepted deviating frames (e.g. points only) must be stored exactly as given too
    else if (id == "C07") { c.deviations = true; c.fillAtEnd = false; }
    else if (id == "C08") { c.framesParamMid = true; c.workingCopies = true; c.callerReuse = true; c.fillAtEnd = false; }
    else if (id == "C09") { c.badParams = true; c.nameVariants = true; c.selfParam = true; c.fillAtEnd = false; c.maxFrames = 2; }
    else if (id == "C10") { c.deviations = true; c.badParams = true; c.nameVariants = true; c.ragged = true; c.reload = true; c.fillAtEnd = false; }
    else if (id == "C13") { c.framesParamMid = true; c.resample = true; c.workingCopies = true; c.selfParam = true; c.keepRefused = true; c.deviations = true; c.badParams = true; c.callerReuse = true; c.reload = true; c.print = true; c.ragged = false; }
    else if (id == "C14") { c.print = false; c.raggedSub = true; c.resample = true; }
    else if (id == "C15") { c.framesParam = true; }
    return c;
}

rc::Gen<std::vector<Op>> genFileOpsFor(int tier, bool layouts);
rc::Gen<std::vector<Op>> genScriptOpsFor(const std::string &id, int tier) {
    const bool editMode = id.size() == 4 && id[3] == 'e';
    const bool noFill = id.size() == 4 && id[3] == 'n';       // no closing gapfill: the history ends with its last frame / column / edit call
    ScriptCfg c = cfgFor((editMode || noFill) ? id.substr(0, 3) : id, tier);
    if (noFill) { c.fillAtEnd = false; c.maxEdits = 2; }
    if (editMode) {      // edits of a loaded file: no fresh setup burst, just edit operations and frames
        c.maxSetup = 3; c.maxFrames = 4; c.reload = true;
        auto mixed = g::weightedOneOf<std::vector<Op>>({{3, one(gEditOp(c))}, {2, gFrameAdd(c)}});
        auto lst = g::scale(0.1, g::container<std::vector<std::vector<Op>>>(g::scale(10.0, mixed)));
        auto edits = g::map(lst, [](std::vector<std::vector<Op>> v) { std::vector<Op> o; for (auto &x : v) o.insert(o.end(), x.begin(), x.end()); return o; });
        if (!c.fillAtEnd) return edits;
        return concat({edits, one(op("gapfill", {seedv()}))});
    }
    return genScriptOps(c);
}

rc::Gen<Case> genScriptCase(const std::string &id, int tier) {
    if (id == "C11") {
        ScriptCfg c = cfgFor(id, tier); c.fillAtEnd = false; c.maxFrames = tier ? 12 : 6; c.callerReuse = false;
        auto look = op("look", {uni(0, 14), uni(0, 5), sized(0, 400)});
        auto scratch = concat({genScriptOps(c), ops(look, tier ? 60 : 30)});
        auto loaded = concat({genFileOpsFor(tier, true), one(op("load", {})), ops(look, tier ? 60 : 30)});     // byte-typed parameters, unlabeled points, events only exist in loaded files
        return asCase(g::oneOf(scratch, scratch, loaded));
    }
    return asCase(genScriptOps(cfgFor(id, tier)));
}

} // namespace vf
