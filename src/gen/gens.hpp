#pragma once
#include <rapidcheck.h>
#include "../common/case.hpp"
namespace vf {
rc::Gen<Case> genFor(const std::string &id, int tier);
void showValue(const Op &o, std::ostream &os);
void showValue(const Case &c, std::ostream &os);

// helpers shared by generator TUs
namespace gh {
inline rc::Gen<long long> uni(long long lo, long long hi) {          // uniform whatever the size
    return rc::gen::resize(100, rc::gen::map(rc::gen::inRange<long long>(lo, hi + 1), [](long long v) { return v; }));
}
inline rc::Gen<long long> sized(long long lo, long long hi) {        // grows with size
    return rc::gen::inRange<long long>(lo, hi + 1);
}
inline rc::Gen<long long> seedv() { return uni(0, 1000000007LL); }
inline rc::Gen<long long> oneOfLL(std::vector<long long> v) { return rc::gen::elementOf(v); }
template <class T> rc::Gen<T> weighted(std::vector<std::pair<size_t, rc::Gen<T>>> w) {
    long long total = 0;
    for (auto &x : w) total += static_cast<long long>(x.first);
    return rc::gen::mapcat(uni(0, total - 1), [w](long long k) {
        for (auto &x : w) { if (k < static_cast<long long>(x.first)) return x.second; k -= static_cast<long long>(x.first); }
        return w.back().second;
    });
}
rc::Gen<Op> op(const std::string &code, std::vector<rc::Gen<long long>> args);
rc::Gen<std::vector<Op>> ops(rc::Gen<Op> g, int maxLen);
rc::Gen<std::vector<Op>> concat(std::vector<rc::Gen<std::vector<Op>>> parts);
rc::Gen<Case> asCase(rc::Gen<std::vector<Op>> g);
}
} // namespace vf
