#include "gens.hpp"
namespace vf {
void showValue(const Op &o, std::ostream &os) { os << o.code; for (auto v : o.a) os << ' ' << v; }
void showValue(const Case &c, std::ostream &os) { os << "\n" << toText(c); }
namespace gh {
rc::Gen<Op> op(const std::string &code, std::vector<rc::Gen<long long>> args) {
    // build a vector<long long> from heterogeneous generators, keeping shrinking of each argument
    rc::Gen<std::vector<long long>> acc = rc::gen::just(std::vector<long long>());
    for (auto &g : args) {
        acc = rc::gen::apply([](std::vector<long long> v, long long x) { v.push_back(x); return v; }, acc, g);
    }
    return rc::gen::map(acc, [code](std::vector<long long> v) { Op o; o.code = code; o.a = std::move(v); return o; });
}
rc::Gen<std::vector<Op>> ops(rc::Gen<Op> g, int maxLen) {
    // length uniform in [0, maxLen] at nominal size 100, growing with size; elements keep the outer size
    if (maxLen < 1) maxLen = 1;
    const double k = maxLen / 100.0;
    return rc::gen::scale(k, rc::gen::container<std::vector<Op>>(rc::gen::scale(1.0 / k, g)));
}
rc::Gen<std::vector<Op>> concat(std::vector<rc::Gen<std::vector<Op>>> parts) {
    rc::Gen<std::vector<Op>> acc = rc::gen::just(std::vector<Op>());
    for (auto &p : parts)
        acc = rc::gen::apply([](std::vector<Op> a, std::vector<Op> b) { a.insert(a.end(), b.begin(), b.end()); return a; }, acc, p);
    return acc;
}
rc::Gen<Case> asCase(rc::Gen<std::vector<Op>> g) {
    return rc::gen::map(g, [](std::vector<Op> v) { Case c; c.ops = std::move(v); return c; });
}
}
}
