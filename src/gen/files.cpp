// Generators of well-formed C3D file models (C02, C04, C12, C16 base files ...), expressed as f* ops.
#include "gens.hpp"
namespace vf {
using namespace gh;
namespace g = rc::gen;

struct FileCfg {
    int maxPoints = 40, maxChannels = 16, maxSub = 10, maxFrames = 12, maxGroups = 5, maxParams = 8;
    bool layouts = true, small = false;
};

static rc::Gen<long long> pick(std::vector<long long> v) { return g::elementOf(v); }
static rc::Gen<long long> fdescLen() {
    return g::weightedOneOf<long long>({{5, g::just<long long>(0)}, {4, sized(1, 40)}, {2, pick({126, 127, 128, 129, 200, 254, 255})}, {2, uni(1, 255)}});
}
static rc::Gen<long long> fdim() {
    return g::weightedOneOf<long long>({{10, pick({1, 2, 3})}, {3, g::just<long long>(0)}, {3, pick({4, 5, 8})}, {2, pick({16, 32, 100})}, {1, pick({255, 128, 127})}});
}

// dimension entries whose products overflow 16 / 32 / 64 bits
static rc::Gen<long long> bigDim() { return g::weightedOneOf<long long>({{6, pick({128, 128, 64, 255, 16, 32})}, {2, pick({0, 1, 2})}, {1, uni(0, 255)}}); }

rc::Gen<std::vector<Op>> genFileOps(const FileCfg &c) {
    auto zeros = c.layouts ? g::weightedOneOf<long long>({{6, g::just<long long>(0)}, {2, pick({512, 1024, 1536})}, {1, uni(1, 700)}}) : g::just<long long>(0);
    auto pblock = c.layouts ? g::weightedOneOf<long long>({{6, g::just<long long>(2)}, {3, uni(3, 5)}}) : g::just<long long>(2);
    auto layout = op("flayout", {zeros, pblock, c.layouts ? g::weightedOneOf<long long>({{4, g::just<long long>(0)}, {1, g::just<long long>(1)}}) : g::just<long long>(0),
                                 uni(0, 1), uni(0, 255), c.layouts ? g::weightedOneOf<long long>({{8, g::just<long long>(0)}, {1, g::just<long long>(1)}}) : g::just<long long>(0)});
    const long long mp = c.maxPoints, mc = c.maxChannels, ms = c.maxSub, mf = c.maxFrames;
    auto npts = g::weightedOneOf<long long>({{2, g::just<long long>(0)}, {6, sized(1, 6)}, {3, sized(1, mp)}, {c.small ? 0u : 1u, pick({254, 255})}});
    auto nch = g::weightedOneOf<long long>({{3, g::just<long long>(0)}, {5, sized(1, 4)}, {2, sized(1, mc)}});
    auto nsub = g::weightedOneOf<long long>({{4, g::just<long long>(1)}, {3, pick({2, 4, 10})}, {2, sized(1, ms)}});
    auto first = g::weightedOneOf<long long>({{5, g::just<long long>(1)}, {2, sized(2, 300)}, {1, pick({32767, 32768, 65000, 65535})}});
    auto ldelta = g::weightedOneOf<long long>({{7, g::just<long long>(0)}, {3, uni(-3, 3)}});
    auto shape = op("fshape", {npts, nch, nsub, sized(0, mf), first, uni(0, 17), ldelta, ldelta, seedv(),
                               c.layouts ? g::weightedOneOf<long long>({{9, g::just<long long>(0)}, {1, g::just<long long>(1)}, {1, g::just<long long>(2)}}) : g::just<long long>(0)});   // 1: no POINT:DATA_START, 2: zero frames although points are declared
    auto w16 = g::weightedOneOf<long long>({{3, pick({0, 1, 2, 10, 127, 128, 255, 256, 257, 12345, 32766, 32767, 32768, 32769, 65534, 65535})}, {2, uni(0, 65535)}});
    auto hdr = op("fhdr", {w16, w16, w16, g::weightedOneOf<long long>({{3, g::just<long long>(12345)}, {1, w16}}), g::weightedOneOf<long long>({{3, g::just<long long>(0)}, {2, uni(0, 18)}}), seedv(),
                           g::weightedOneOf<long long>({{3, g::just<long long>(0)}, {1, seedv()}})});
    auto ids = c.layouts ? g::weightedOneOf<Op>({{5, op("fids", {g::just<long long>(0), g::just<long long>(1), g::just<long long>(3)})},
                                                 {2, op("fids", {uni(0, 126), uni(0, 126), uni(0, 127)})},
                                                 {1, op("fids", {g::just<long long>(1), g::just<long long>(0), g::just<long long>(0)})}})
                         : op("fids", {g::just<long long>(0), g::just<long long>(1), g::just<long long>(3)});
    auto grp = op("fgroup", {g::weightedOneOf<long long>({{3, sized(2, 9)}, {1, uni(0, 126)}}), sized(0, 30), fdescLen(), uni(0, 1)});
    auto nd = g::weightedOneOf<long long>({{3, g::just<long long>(0)}, {3, g::just<long long>(1)}, {3, g::just<long long>(2)}, {2, g::just<long long>(3)}, {1, uni(4, 7)}});
    rc::Gen<Op> par = op("fparam", {sized(0, 8), sized(0, 20), uni(0, 3), nd, fdim(), fdim(), fdim(), fdim(), fdim(), fdim(), fdim(), seedv(), fdescLen(), uni(0, 1)});
    // occasionally a large matrix whose record is longer than 32767 bytes (legal: the next-offset is an unsigned 16-bit word)
    auto bigpar = op("fparam", {sized(0, 8), sized(0, 20), uni(1, 3), g::just<long long>(2), pick({128, 200, 255}), pick({70, 100, 120, 127}), fdim(), fdim(), fdim(), fdim(), fdim(), seedv(), fdescLen(), uni(0, 1)});
    par = g::weightedOneOf<Op>({{14, par}, {1, bigpar}});
    auto order = op("forder", {seedv(), c.layouts ? g::weightedOneOf<long long>({{4, g::just<long long>(0)}, {3, g::just<long long>(1)}, {1, g::just<long long>(2)}}) : g::just<long long>(0)});
    auto one = [](rc::Gen<Op> o) { return g::map(o, [](Op x) { return std::vector<Op>{x}; }); };
    return concat({one(layout), one(shape), one(hdr), one(ids), ops(grp, c.maxGroups), ops(par, c.maxParams), one(order)});
}

rc::Gen<std::vector<Op>> genFileOpsFor(int tier, bool layouts) {
    FileCfg c; c.layouts = layouts; c.small = true; c.maxPoints = 8; c.maxChannels = 4; c.maxFrames = tier ? 10 : 4;
    return genFileOps(c);
}

rc::Gen<Case> genFileCase(const std::string &id, int tier) {
    FileCfg c;
    if (tier) { c.maxPoints = 120; c.maxChannels = 64; c.maxSub = 20; c.maxFrames = 50; c.maxGroups = 10; c.maxParams = 20; }
    auto one = [](rc::Gen<Op> o) { return g::map(o, [](Op x) { return std::vector<Op>{x}; }); };
    if (id == "C16") {
        c.small = true; c.maxPoints = 6; c.maxChannels = 3; c.maxFrames = 3; c.maxParams = 5;
        auto corr = g::weightedOneOf<Op>({
            {4, op("poke", {uni(0, 4000), g::weightedOneOf<long long>({{3, pick({0, 1, 0x7F, 0x80, 0xFF})}, {1, uni(0, 255)}})})},
            {6, op("field", {uni(0, 400), g::weightedOneOf<long long>({{4, pick({0, 1, 2, 0x7F, 0x80, 0x81, 0xFE, 0xFF, 0x100, 0x7FFF, 0x8000, 0xFFFF})}, {1, uni(0, 65535)}})})},
            {1, op("trunc", {uni(0, 6000)})},
            {2, op("truncmeta", {uni(0, 3000)})},
            {2, op("dims", {uni(0, 12), pick({0, 0, 1, 2, 4, 0xFF}), uni(3, 7), bigDim(), bigDim(), bigDim(), bigDim(), bigDim(), bigDim(), bigDim()})},
        });
        return asCase(concat({genFileOps(c), g::scale(0.04, g::container<std::vector<Op>>(g::scale(25.0, corr))), one(corr), one(op("load", {}))}));
    }
    return asCase(concat({genFileOps(c), one(op("load", {}))}));
}

} // namespace vf
