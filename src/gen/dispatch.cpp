#include "gens.hpp"
namespace vf {
rc::Gen<Case> genScriptCase(const std::string &id, int tier);
rc::Gen<Case> genFileCase(const std::string &id, int tier);
rc::Gen<std::vector<Op>> genFileOpsFor(int tier, bool layouts);
rc::Gen<std::vector<Op>> genScriptOpsFor(const std::string &id, int tier);
rc::Gen<Case> genFor(const std::string &id, int tier) {
    using namespace gh;
    if (id == "C03") {
        // from scratch, or load a generated file and edit it; always ends with a padding parameter that sweeps the section length
        auto one = [](rc::Gen<Op> o) { return rc::gen::map(o, [](Op x) { return std::vector<Op>{x}; }); };
        auto pad = one(op("padp", {uni(0, 255), uni(0, 3)}));
        auto scratch = concat({genScriptOpsFor("C03", tier), pad});
        auto edited = concat({genFileOpsFor(tier, true), one(op("load", {})), genScriptOpsFor("C03e", tier), pad});
        // (the closing parameter call re-runs the header update; one history in four puts it first, so that the object is saved right after
        //  its last frame / column call)
        auto padFirst = concat({pad, genScriptOpsFor("C03n", tier)});
        return asCase(rc::gen::oneOf(scratch, scratch, edited, padFirst));
    }
    if (id == "C01") {
        // mostly content assembled from scratch; one history in five assembles it on top of a generated file that was loaded first
        // (vendor layouts, first frame number > 1, events, byte parameters): what is then saved must load back the same too
        auto one = [](rc::Gen<Op> o) { return rc::gen::map(o, [](Op x) { return std::vector<Op>{x}; }); };
        auto scratch = genScriptOpsFor(id, tier);
        auto edited = concat({genFileOpsFor(tier, true), one(op("load", {})), genScriptOpsFor("C01e", tier)});
        auto noClosing = genScriptOpsFor("C01n", tier);      // the object is saved right after its last frame / column / edit call (no closing gap fill)
        return asCase(rc::gen::weightedOneOf<std::vector<Op>>({{4, scratch}, {1, edited}, {1, noClosing}}));
    }
    if (id == "C13" || id == "C14") {
        // union workload: API histories from scratch, or a generated file that is loaded and then edited
        auto one = [](rc::Gen<Op> o) { return rc::gen::map(o, [](Op x) { return std::vector<Op>{x}; }); };
        auto scratch = genScriptOpsFor(id, tier);
        auto edited = concat({genFileOpsFor(tier, true), one(op("load", {})), genScriptOpsFor(id == "C13" ? "C13e" : "C14e", tier)});
        return asCase(rc::gen::oneOf(scratch, scratch, edited));
    }
    if (id == "C17") {
        // random combinations of 1..3 limits with values at L-1, L, L+1 or far beyond, on top of a small declared shape
        auto one = [](rc::Gen<Op> o) { return rc::gen::map(o, [](Op x) { return std::vector<Op>{x}; }); };
        auto lim = [](long long kind, std::vector<long long> vals) { return op("limit", {rc::gen::just(kind), rc::gen::elementOf(vals)}); };
        auto anyLimit = rc::gen::oneOf(lim(0, {254, 255, 256, 400}), lim(1, {126, 127, 128, 200}), lim(2, {126, 127, 128, 200}), lim(3, {254, 255, 256, 1000}),
                                       lim(4, {254, 255, 256, 300}), lim(5, {32766, 32767, 32768, -32768, -32769, 70000}), lim(10, {6, 7, 8}), lim(9, {100, 250, 258, 262, 300}), lim(16, {1, 254, 255, 256, 300}), lim(17, {254, 255, 256, 300}));
        auto shape = rc::gen::oneOf(lim(6, {1, 3, 254, 255, 256, 300}), lim(7, {1, 2, 254, 255, 256, 300}));
        auto frames = lim(8, {1, 2, 5});
        return asCase(concat({ops(anyLimit, 3), one(shape), one(op("prate", {uni(0, 10)})), one(op("arate", {uni(0, 3)})), one(frames), ops(anyLimit, 2)}));
    }
    if (id == "C05" || id == "C06" || id == "C07" || id == "C08" || id == "C09" || id == "C10") {
        // mostly histories from a fresh object; one in four starts from a generated file that is loaded and then edited
        auto one = [](rc::Gen<Op> o) { return rc::gen::map(o, [](Op x) { return std::vector<Op>{x}; }); };
        auto scratch = genScriptOpsFor(id, tier);
        auto edited = concat({genFileOpsFor(tier, true), one(op("load", {})), genScriptOpsFor(id + "e", tier)});
        if (id == "C05") {
            // a vendor-style header that disagrees with the parameters (0 samples per frame without channels, although the rates give a ratio)
            auto vendor = concat({genFileOpsFor(tier, true), one(op("fzerosub", {})), one(op("load", {})), genScriptOpsFor(id + "e", tier)});
            return asCase(rc::gen::weightedOneOf<std::vector<Op>>({{9, scratch}, {2, edited}, {1, vendor}}));
        }
        return asCase(rc::gen::oneOf(scratch, scratch, scratch, edited));
    }
    if (id == "C02" || id == "C04" || id == "C16" || id == "C12") return genFileCase(id, tier);
    return genScriptCase(id, tier);
}
}
