#include "gens.hpp"
namespace vf {
rc::Gen<Case> genScriptCase(const std::string &id, int tier);
rc::Gen<Case> genFor(const std::string &id, int tier) {
    return genScriptCase(id, tier);
}
}
