#include "gens.hpp"
namespace vf {
rc::Gen<Case> genScriptCase(const std::string &id, int tier);
rc::Gen<Case> genFileCase(const std::string &id, int tier);
rc::Gen<std::vector<Op>> genFileOpsFor(int tier, bool layouts);
rc::Gen<std::vector<Op>> genScriptOpsFor(const std::string &id, int tier);
rc::Gen<Case> genFor(const std::string &id, int tier) {
    using namespace gh;
    if (id == "C03") {
        // from scratch, or load a generated file and edit it; always ends with a padding parameter that sweeps the section length
        auto one = [](rc::Gen<Op> o) { return rc::gen::map(o, [](Op x) { return std::vector<Op>{x}; }); };
        auto pad = one(op("padp", {uni(0, 255), uni(0, 3)}));
        auto scratch = concat({genScriptOpsFor("C03", tier), pad});
        auto edited = concat({genFileOpsFor(tier, true), one(op("load", {})), genScriptOpsFor("C03e", tier), pad});
        return asCase(rc::gen::oneOf(scratch, scratch, edited));
    }
    if (id == "C02" || id == "C04" || id == "C16" || id == "C12") return genFileCase(id, tier);
    return genScriptCase(id, tier);
}
}
