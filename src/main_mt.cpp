// mt --batch <list of combined case files> <stats.json>
// A combined case:  "mt <k> <seed>" then, per thread, "thread" followed by that thread's operations.
// Every thread runs its own script on its own object / scratch directory behind a barrier, with a generated schedule
// perturbation (yields / spins before operations). Oracle: (a) ThreadSanitizer (halt_on_error) when built with it,
// (b) each thread's trace equals the trace of the same script run alone in a pristine process of its own.
#include <atomic>
#include <chrono>
#include <cstdio>
#include <map>
#include <mutex>
#include <sstream>
#include <thread>
#include <sys/stat.h>
#include <sys/wait.h>
#include <unistd.h>
#include "common/trace.hpp"
using namespace vf;

// process-wide state a library call may touch behind the caller's back: signal dispositions, umask, rounding mode, locale, working directory.
// Running alone, every script leaves it as it was; if it differs after the concurrent phase, some thread would observe a process it did
// not set up (its own SIGXFSZ handler gone, another rounding mode ...)
#include <cfenv>
#include <clocale>
#include <csignal>
static void noteSig(int) {}
static std::string processState() {
    std::string st;
    for (int sig = 1; sig < 32; ++sig) {
        struct sigaction sa; if (sigaction(sig, nullptr, &sa) != 0) continue;
        char b[64]; snprintf(b, sizeof b, "sig%d=%p/%x ", sig, reinterpret_cast<void *>(sa.sa_handler), static_cast<unsigned>(sa.sa_flags)); st += b;
    }
    mode_t m = umask(0); umask(m);
    char cwd[512]; if (!getcwd(cwd, sizeof cwd)) cwd[0] = 0;
    const char *loc = setlocale(LC_ALL, nullptr);
    st += "umask=" + std::to_string(m) + " round=" + std::to_string(fegetround()) + " locale=" + (loc ? loc : "?") + " cwd=" + cwd;
    return st;
}

static std::string jsonStr(const std::string &s) {
    std::string o = "\"";
    for (unsigned char c : s) { if (c == '"') o += "\\\""; else if (c == '\\') o += "\\\\"; else if (c == '\n') o += "\\n"; else if (c < 0x20 || c >= 0x7F) { char b[8]; snprintf(b, sizeof b, "\\u%04x", c); o += b; } else o.push_back(static_cast<char>(c)); }
    return o + "\"";
}

struct Span { double b, e; };

int main(int argc, char **argv) {
    if (argc < 4 || std::string(argv[1]) != "--batch") { fprintf(stderr, "usage: mt --batch <list> <stats>\n"); return 2; }
    std::string list; if (!readFileText(argv[2], list)) return 2;
    std::istringstream is(list); std::string path;
    const int maxThreads = 16;
    std::vector<std::string> scratch;
    for (int i = 0; i <= maxThreads; ++i) scratch.push_back(makeScratchDir("mt" + std::to_string(i)));     // created by the main thread only
    // "saved to different paths" also means: different names in ONE directory. Style 1: same stem, extensions .t0 .t1 ...; style 2: names
    // without extension in a directory whose name contains a dot (session.1/t0_out_0, session.1/t1_out_0)
    const std::string shared = makeScratchDir("mtshared"), dotted = shared + "/session.1";
    mkdir(dotted.c_str(), 0700);
    std::map<int, long long> styleReps;
    long long reps = 0, overlapping = 0, threadsRun = 0; std::string failCase, failMsg; std::vector<std::string> samples;
    int rc = 0;
    while (std::getline(is, path)) {
        if (path.empty()) continue;
        std::string text, err; Case all;
        if (!readFileText(path, text) || !parseCase(text, all, err)) { fprintf(stderr, "cannot read %s\n", path.c_str()); return 2; }
        long long seed = 1; std::vector<Case> per;
        for (auto &op : all.ops) {
            if (op.code == "mt") { seed = op.arg(1); continue; }
            if (op.code == "thread") { per.push_back(Case()); per.back().prop = "C18"; continue; }
            if (!per.empty()) per.back().ops.push_back(op);
        }
        if (per.empty() || per.size() > static_cast<size_t>(maxThreads)) continue;
        const int style = static_cast<int>((seed < 0 ? -seed : seed) % 3);
        ++styleReps[style];
        auto dirOf = [&](size_t t, bool aloneRun) { return style == 0 ? (aloneRun ? scratch[maxThreads] : scratch[t]) : (style == 1 ? shared : dotted); };
        fprintf(stderr, "RUNNING %s\n", path.c_str());
        // every repetition runs in a fresh child process (the parent has no threads): function-local statics and other lazily
        // initialised hidden state are in their initial state when the threads start, and the concurrent phase comes FIRST
        const std::string resPath = scratch[maxThreads] + "/rep_result.txt";
        remove(resPath.c_str());
        fflush(stdout); fflush(stderr);
        // reference: every script alone, EACH IN ITS OWN PRISTINE PROCESS forked from this thread-less parent before anything of the
        // library ran in it: hidden process-wide state (function-local statics, caches) set by one object cannot carry over to the
        // reference of another, nor from the concurrent phase to the references
        std::vector<std::string> alone(per.size());
        for (size_t t = 0; t < per.size(); ++t) {
            const std::string ap = scratch[maxThreads] + "/alone_" + std::to_string(t) + ".txt";
            remove(ap.c_str());
            pid_t ap_pid = fork();
            if (ap_pid == 0) {
                TraceOpts o; o.pathStyle = style; o.pathTag = "t" + std::to_string(t);
                writeFileText(ap, traceOf(per[t], dirOf(t, true), o));
                fflush(stdout); fflush(stderr);
                _exit(0);
            }
            int st = 0; waitpid(ap_pid, &st, 0);
            if (!(WIFEXITED(st) && WEXITSTATUS(st) == 0) || !readFileText(ap, alone[t])) { alone[t] = "reference run terminated abnormally (status " + std::to_string(st) + ")\n"; }
        }
        pid_t pid = fork();
        if (pid == 0) {
            std::vector<std::string> together(per.size());
            std::atomic<int> ready(0); std::atomic<bool> go(false);
            std::vector<std::vector<Span>> spans(per.size());
            auto t0 = std::chrono::steady_clock::now();
            std::vector<std::thread> th;
            for (size_t t = 0; t < per.size(); ++t) {
                th.emplace_back([&, t] {
                    Rng r(static_cast<uint64_t>(seed) * 1315423911ULL + t);
                    TraceOpts o; o.pathStyle = style; o.pathTag = "t" + std::to_string(t);
                    o.beforeOp = [&r](size_t) {
                        uint64_t k = r.below(8);
                        if (k == 0) std::this_thread::yield();
                        else if (k == 1) { volatile unsigned x = 0; for (unsigned i = 0, n = static_cast<unsigned>(r.below(20000)); i < n; ++i) x += i; }
                        else if (k == 2) std::this_thread::sleep_for(std::chrono::microseconds(r.below(200)));
                    };
                    double cur = 0;
                    o.ioMark = [&](const std::string &, bool begin) {
                        double now = std::chrono::duration<double>(std::chrono::steady_clock::now() - t0).count();
                        if (begin) cur = now; else spans[t].push_back({cur, now});
                    };
                    ready.fetch_add(1);
                    while (!go.load()) std::this_thread::yield();
                    together[t] = traceOf(per[t], dirOf(t, false), o);
                });
            }
            while (ready.load() < static_cast<int>(per.size())) std::this_thread::yield();
            signal(SIGXFSZ, noteSig); signal(SIGPIPE, noteSig);      // the application's own handlers
            const std::string stateBefore = processState();
            go.store(true);
            for (auto &x : th) x.join();
            const std::string stateAfter = processState();
            bool ov = false;
            for (size_t a = 0; a < per.size() && !ov; ++a) for (size_t b = a + 1; b < per.size() && !ov; ++b)
                for (auto &sa : spans[a]) for (auto &sb : spans[b]) if (sa.b < sb.e && sb.b < sa.e) ov = true;
            std::string msg;
            for (size_t t = 0; t < per.size(); ++t)
                if (alone[t] != together[t]) { msg = "thread " + std::to_string(t) + " of " + std::to_string(per.size()) + " observed results that differ from running its script alone (in a process of its own): " + firstDiff(alone[t], together[t]); break; }
            if (msg.empty() && stateBefore != stateAfter) msg = "process-wide state (signal dispositions / umask / rounding mode / locale / working directory) differs after the threads ran: " + firstDiff(stateBefore, stateAfter);
            writeFileText(resPath, std::string(ov ? "1" : "0") + "\n" + msg + "\n");
            fflush(stdout); fflush(stderr);
            _exit(msg.empty() ? 0 : 1);
        }
        int status = 0; waitpid(pid, &status, 0);
        ++reps; threadsRun += static_cast<long long>(per.size());
        std::string rtext; readFileText(resPath, rtext);
        const bool ov = !rtext.empty() && rtext[0] == '1';
        if (ov) { ++overlapping; if (samples.size() < 2) samples.push_back(text.substr(0, 1500)); }
        if (WIFEXITED(status) && WEXITSTATUS(status) == 0) continue;
        failCase = path;
        if (WIFEXITED(status) && WEXITSTATUS(status) == 1) { size_t nl = rtext.find('\n'); failMsg = nl == std::string::npos ? "" : rtext.substr(nl + 1); rc = 1; }
        else { rc = WIFEXITED(status) ? WEXITSTATUS(status) : 70; failMsg = "child terminated abnormally (status " + std::to_string(status) + ")"; }
        break;
    }
    std::ostringstream js;
    js << "{\"path_styles\":{\"own-directory\":" << styleReps[0] << ",\"one-directory-extensions-differ\":" << styleReps[1] << ",\"dotted-directory-no-extension\":" << styleReps[2] << "},\"repetitions\":" << reps << ",\"overlapping\":" << overlapping << ",\"threads_run\":" << threadsRun << ",\"ok\":" << (rc == 0 ? "true" : "false")
       << ",\"fail_case\":" << jsonStr(failCase) << ",\"fail_msg\":" << jsonStr(failMsg) << ",\"samples\":[";
    for (size_t i = 0; i < samples.size(); ++i) js << (i ? "," : "") << jsonStr(samples[i]);
    js << "]}\n";
    writeFileText(argv[3], js.str());
    return rc;
}
