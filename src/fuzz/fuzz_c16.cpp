// libFuzzer target (byte level) for C16: any byte sequence is loaded or refused with a standard exception, within a
// read-work budget proportional to its size, without any sanitizer report. The oracle is the C16 property itself.
#include <cstdint>
#include <cstdio>
#include <cstdlib>
#include "../common/props.hpp"
using namespace vf;
static RunCtx *g_ctx = nullptr;
extern "C" int LLVMFuzzerTestOneInput(const uint8_t *data, size_t size) {
    if (!g_ctx) { g_ctx = new RunCtx(makeCtx("fuzz-c16")); g_ctx->openFindings.insert("KF-D17"); }
    if (size > 65536) return 0;
    Case c; c.prop = "C16";
    Op b; b.code = "bytes"; b.a.assign(data, data + size); c.ops.push_back(b);
    Op l; l.code = "load"; c.ops.push_back(l);
    const PropDef *p = findProp("C16");
    CaseResult r = p->run(c, *g_ctx);
    if (r.v == CaseResult::FAIL) {
        const char *dir = getenv("VERIF_FUZZ_OUT");
        std::string path = std::string(dir ? dir : ".") + "/fail-" + std::to_string(fnv(toText(c))) + ".case";
        writeFileText(path, toText(c) + "# " + r.msg + "\n");
        fprintf(stderr, "ORACLE-FAIL %s: %s\n", path.c_str(), r.msg.c_str());
        __builtin_trap();
    }
    return 0;
}
