// libFuzzer target (structure aware) for C02 + C04: the fuzz input is decoded into the integer arguments of the file-model
// operations (layout, shape, header, group ids, groups, parameters, record order); the reference encoder builds a
// well-formed file from them; oracles: independent decoder vs loaded object (C02), load/save/load + byte identity (C04).
#include <cstdint>
#include <cstdio>
#include <cstdlib>
#include <unistd.h>
#include "../common/props.hpp"
using namespace vf;
static RunCtx *g_ctx = nullptr;
namespace {
struct Rd { const uint8_t *d; size_t n, p = 0;
    long long u8() { return p < n ? d[p++] : 0; }
    long long u16() { long long a = u8(); return a | (u8() << 8); }
    long long u32() { long long a = u16(); return a | (u16() << 16); } };
}
extern "C" int LLVMFuzzerTestOneInput(const uint8_t *data, size_t size) {
    if (!g_ctx) g_ctx = new RunCtx(makeCtx("fuzz-c02"));
    if (size < 8 || size > 600) return 0;
    Rd r{data, size};
    Case c;
    auto add = [&](const char *code, std::vector<long long> a) { Op o; o.code = code; o.a = std::move(a); c.ops.push_back(o); };
    long long z = r.u8(); long long zeros = z < 128 ? 0 : (z < 200 ? 512 * (1 + z % 3) : r.u16() % 700);
    add("flayout", {zeros, 2 + r.u8() % 4, r.u8() % 5 == 0, r.u8() % 2, r.u8(), r.u8() % 9 == 0});
    add("fshape", {r.u8() % 24, r.u8() % 9, r.u8() % 6, r.u8() % 6, (r.u8() % 4 == 0) ? r.u16() : 1, r.u8() % 18, (r.u8() % 7) - 3, (r.u8() % 7) - 3, r.u32()});
    add("fhdr", {r.u16(), r.u16(), r.u16(), r.u8() % 3 ? 12345 : r.u16(), r.u8() % 19, r.u32(), r.u8() % 3 == 0 ? r.u32() : 0});
    add("fids", {r.u8() % 127, r.u8() % 127, r.u8() % 128});
    int ng = static_cast<int>(r.u8() % 5), np = static_cast<int>(r.u8() % 9);
    for (int i = 0; i < ng; ++i) add("fgroup", {r.u8() % 127, r.u8() % 30, r.u8(), r.u8() % 2});
    for (int i = 0; i < np; ++i) {
        std::vector<long long> a = {r.u8() % 8, r.u8() % 20, r.u8() % 4, r.u8() % 8};
        for (int k = 0; k < 7; ++k) { long long d = r.u8(); a.push_back(d < 200 ? d % 5 : (d < 250 ? d % 40 : 255)); }
        a.push_back(r.u32()); a.push_back(r.u8()); a.push_back(r.u8() % 2);
        add("fparam", a);
    }
    add("forder", {r.u32(), r.u8() % 3});
    add("load", {});
    { const char *dir = getenv("VERIF_FUZZ_OUT"); if (dir) writeFileText(std::string(dir) + "/current-" + std::to_string(getpid()) + ".case", toText(c)); }
    for (const char *prop : {"C02", "C04"}) {
        c.prop = prop;
        CaseResult res = findProp(prop)->run(c, *g_ctx);
        if (res.v == CaseResult::FAIL) {
            const char *dir = getenv("VERIF_FUZZ_OUT");
            std::string path = std::string(dir ? dir : ".") + "/fail-" + prop + "-" + std::to_string(fnv(toText(c))) + ".case";
            writeFileText(path, toText(c) + "# " + res.msg + "\n");
            fprintf(stderr, "ORACLE-FAIL %s: %s\n", path.c_str(), res.msg.c_str());
            __builtin_trap();
        }
    }
    return 0;
}
