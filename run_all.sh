#!/bin/bash
# convenience: run every check of a tier, print one line per property
tier=${1:-quick}
for p in C01 C02 C03 C04 C05 C06 C07 C08 C09 C10 C11 C12 C13 C14 C15 C16 C17 C18 C19; do
  s=$(date +%s)
  out=$(./check run $p --tier $tier 2>&1); rc=$?
  echo "$p rc=$rc $(( $(date +%s) - s ))s $(echo "$out" | grep -E '^(OK|VIOLATION|BROKEN)' | head -2 | tr '\n' ' ' | cut -c1-200)"
done
